// Command vh runs the checks that need no instrumented copy of the library
// (C11-C14): it is built against /repo's current working tree.
package main

import (
	"fmt"
	"os"

	"verif/harness"
	"verif/sim"
)

func main() {
	if len(os.Args) < 2 {
		fmt.Fprintln(os.Stderr, "usage: vh <property> <quick|thorough> | vh <property> replay <file>")
		os.Exit(2)
	}
	var ck *sim.Check
	switch os.Args[1] {
	case "C11":
		ck = harness.C11()
	case "C12":
		ck = harness.C12()
	case "C13":
		ck = harness.C13()
	case "C14":
		ck = harness.C14()
	case "C18":
		// only as the child binary of C18's isolation batch (plain build)
		if len(os.Args) >= 3 && os.Args[2] == "helper" {
			harness.ConcHelperMain()
			return
		}
		ck = harness.C18()
	default:
		fmt.Fprintln(os.Stderr, "unknown property", os.Args[1])
		os.Exit(2)
	}
	ck.Main(os.Args[2:])
}
