// Command vhinst runs the checks that need the seam-instrumented copy of the
// library (C17, C18).  run.sh builds it with a modfile that replaces
// seehuhn.de/go/postscript by the instrumented scratch copy.
package main

import (
	"fmt"
	"os"

	"verif/harness"
	"verif/sim"
)

func main() {
	if len(os.Args) < 2 {
		fmt.Fprintln(os.Stderr, "usage: vhinst <property> <quick|thorough> | vhinst <property> replay <file>")
		os.Exit(2)
	}
	var ck *sim.Check
	switch os.Args[1] {
	case "C17":
		if len(os.Args) >= 3 && os.Args[2] == "helper" {
			harness.DetHelperMain()
			return
		}
		ck = harness.C17()
	case "C18":
		if len(os.Args) >= 3 && os.Args[2] == "helper" {
			harness.ConcHelperMain()
			return
		}
		ck = harness.C18()
	default:
		fmt.Fprintln(os.Stderr, "unknown property", os.Args[1])
		os.Exit(2)
	}
	ck.Main(os.Args[2:])
}
