// Package gen holds the workload generators.  Every choice is drawn from the
// run's tape and follows the "0 is simplest" convention.
package gen

import (
	"verif/sim"
)

// PFBSeg is one model-level PFB segment.
type PFBSeg struct {
	Type     byte   // 1 text, 2 binary (other values: bad header)
	Marker   byte   // 0x80 normally
	Declared int    // declared length
	Data     []byte // bytes actually present (len < Declared only for the last segment)
}

// PFBStream is a model-level PFB stream.
type PFBStream struct {
	Segs      []PFBSeg
	EndMarker bool
	Trailing  []byte // garbage after the end marker
	// PartialHeader: the stream ends with 1..5 bytes of a header (only when
	// !EndMarker).
	PartialHeader []byte
}

// Bytes serialises the stream.
func (p *PFBStream) Bytes() []byte {
	var out []byte
	for _, s := range p.Segs {
		n := uint32(s.Declared)
		out = append(out, s.Marker, s.Type, byte(n), byte(n>>8), byte(n>>16), byte(n>>24))
		out = append(out, s.Data...)
	}
	if p.EndMarker {
		out = append(out, 0x80, 3)
		out = append(out, p.Trailing...)
	} else {
		out = append(out, p.PartialHeader...)
	}
	return out
}

// PFBAnomaly selects which malformation (if any) a generated stream carries.
type PFBAnomaly int

const (
	PFBWellFormed PFBAnomaly = iota
	PFBShortBinary
	PFBShortText
	PFBBadHeader
	PFBPartialHeader
)

// GenPFB draws a PFB stream.  allow lists the anomalies that may be drawn
// (PFBWellFormed is always allowed and is the simple choice).
func GenPFB(t *sim.Tape, maxSegs, maxLen int, allow ...PFBAnomaly) (*PFBStream, PFBAnomaly) {
	an := PFBWellFormed
	if len(allow) > 0 && t.Bool(1, 3) {
		an = sim.Pick(t, allow)
	}
	p := &PFBStream{}
	n := t.Range(0, maxSegs)
	if an != PFBWellFormed && an != PFBPartialHeader && n == 0 {
		n = 1
	}
	// occasionally a long run of empty segments (legal: a zero length is a
	// length like any other)
	if t.Choose(150) == 0 {
		for i := 90 + t.Choose(200); i > 0; i-- {
			p.Segs = append(p.Segs, PFBSeg{Marker: 0x80, Type: byte(1 + t.Choose(2)*t.Choose(2))})
		}
	}
	for i := 0; i < n; i++ {
		s := PFBSeg{Marker: 0x80, Type: byte(1 + t.Choose(2))}
		l := 0
		switch t.Choose(6) {
		case 0:
			l = t.Range(1, 8)
		case 1:
			l = 0
		case 2:
			l = t.Range(1, 40)
		case 3:
			l = t.Range(1, maxLen)
		default:
			l = t.Range(1, 16)
		}
		if t.Choose(400) == 0 {
			l = 65530 + t.Choose(600) // lengths that need the third length byte
		}
		if t.Choose(600) == 0 {
			l = 100_000 + t.Choose(200_000) // much more than any scratch buffer
		}
		s.Declared = l
		s.Data = make([]byte, l)
		mode := t.Choose(4)
		if l > 4096 {
			mode = 2 // no per-byte draws for big segments
		}
		if mode == 3 && l >= 8 {
			// what real fonts look like: text ending in "eexec" + newline, and
			// binary data that may happen to start with hexadecimal digits
			if s.Type == 1 {
				for j := range s.Data {
					s.Data[j] = byte('a' + (j % 26))
				}
				copy(s.Data[l-6:], "eexec"+[]string{"\n", "\r", " "}[t.Choose(3)])
			} else {
				for j := range s.Data {
					s.Data[j] = byte(t.Choose(256))
				}
				copy(s.Data, []string{"0123", "abcd", "FFFF", "9a9B", "01 2"}[t.Choose(5)])
			}
			p.Segs = append(p.Segs, s)
			continue
		}
		for j := range s.Data {
			switch mode {
			case 0:
				s.Data[j] = byte('a' + (j % 26))
			case 1:
				s.Data[j] = byte(t.Choose(256))
			default:
				s.Data[j] = byte(0x10*(j%16) + (j/16)%16)
			}
		}
		p.Segs = append(p.Segs, s)
	}
	switch an {
	case PFBWellFormed:
		p.EndMarker = !t.Bool(1, 4)
		if p.EndMarker && t.Bool(1, 3) {
			switch t.Choose(4) {
			case 0:
				p.Trailing = t.Bytes(t.Range(1, 12))
			case 1: // zero padding
				p.Trailing = make([]byte, t.Range(1, 16))
			case 2: // zero padding followed by something
				p.Trailing = append(make([]byte, t.Range(4, 12)), t.Bytes(t.Range(1, 8))...)
			default: // what looks like another segment, directly after the marker
				// or after the four bytes a six-byte header read takes along
				p.Trailing = nil
				if t.Bool(1, 2) {
					p.Trailing = t.Bytes(4)
				}
				p.Trailing = append(p.Trailing, 0x80, byte(1+t.Choose(2)), 3, 0, 0, 0, 'x', 'y', 'z')
				if t.Bool(1, 2) {
					p.Trailing = append(p.Trailing, 0x80, 3)
				}
			}
		}
	case PFBShortBinary, PFBShortText:
		last := &p.Segs[len(p.Segs)-1]
		if an == PFBShortBinary {
			last.Type = 2
		} else {
			last.Type = 1
		}
		if last.Declared == 0 {
			last.Declared = 1 + t.Choose(20)
			last.Data = make([]byte, last.Declared)
			for j := range last.Data {
				last.Data[j] = byte(t.Choose(256))
			}
		}
		present := t.Choose(last.Declared) // 0..Declared-1
		last.Data = last.Data[:present]
		if t.Bool(1, 8) {
			// a huge declared length with little data
			last.Declared += 1 << uint(8+t.Choose(20))
		}
	case PFBBadHeader:
		// the bad header replaces segment k; everything after it is unreachable
		k := t.Choose(len(p.Segs))
		p.Segs = p.Segs[:k+1]
		s := &p.Segs[k]
		if k > 0 && t.Choose(5) == 0 {
			// a stray byte (line end, NUL, blank, a doubled marker) in front of
			// what would otherwise be a perfectly good later segment
			raw := append([]byte{[]byte("\n\r\x00 \x80\x1a")[t.Choose(6)]}, (&PFBStream{Segs: []PFBSeg{{Marker: 0x80, Type: byte(1 + t.Choose(2)), Declared: 3, Data: []byte("abc")}}, EndMarker: true}).Bytes()...)
			if raw[0] == 0x80 {
				raw[1] = 0x80 // 80 80 01 ...: the second byte is not a type
			}
			s.Marker, s.Type = raw[0], raw[1]
			s.Declared = int(uint32(raw[2]) | uint32(raw[3])<<8 | uint32(raw[4])<<16 | uint32(raw[5])<<24)
			s.Data = raw[6:]
		} else if t.Choose(4) == 3 {
			// what really turns up where a PFB file is expected: other font and
			// document formats (none of them starts with the marker byte)
			m := sim.Pick(t, pfbLookAlikes)
			s.Marker, s.Type = m[0], m[1]
			s.Declared = int(uint32(m[2]) | uint32(m[3])<<8 | uint32(m[4])<<16 | uint32(m[5])<<24)
			s.Data = []byte(m[6:])
		} else if t.Bool(1, 2) {
			s.Marker = byte(t.Choose(256))
			if s.Marker == 0x80 {
				s.Marker = 0x7f
			}
		} else {
			s.Type = byte(t.Choose(256))
			if s.Type >= 1 && s.Type <= 3 {
				s.Type = 0
			}
		}
	case PFBPartialHeader:
		h := []byte{0x80, byte(1 + t.Choose(2)), byte(t.Choose(256)), 0, 0, 0}
		p.PartialHeader = h[:1+t.Choose(5)]
	}
	return p, an
}

var pfbLookAlikes = []string{
	"%!PS-AdobeFont-1.0: Test 001.000\n%%Title: Test\n11 dict begin\n/FontName /Test def\ncurrentdict end\ncurrentfile eexec\n0123456789abcdef\n",
	"%!FontType1-1.0: Test 001.000\n11 dict begin\n",
	"%!PS-Adobe-3.0 Resource-Font\n%%BeginResource: font Test\n",
	"%!PS\n/Test 1 def\n",
	"%PDF-1.7\n%\xe2\xe3\xcf\xd3\n1 0 obj\n",
	"OTTO\x00\x0b\x00\x80\x00\x03\x00\x30CFF ",
	"\x00\x01\x00\x00\x00\x0e\x00\x80\x00\x03\x00\x60GDEF",
	"true\x00\x0e\x00\x80\x00\x03",
	"wOFF\x00\x01\x00\x00\x00\x00\x12\x34",
	"StartFontMetrics 4.1\nFontName Test\n",
	"<?xml version=\"1.0\"?>\n<svg>",
	"\x1f\x8b\x08\x00\x00\x00\x00\x00\x00\x03",
	"\x01\x00\x04\x02\x00\x01\x01\x01\x05Test",
	"\x00\x80\x01\x03\x00\x00\x00abc\x80\x03",
	"\x80\x80\x01\x03\x00\x00\x00abc\x80\x03",
	"\r\n\x80\x01\x03\x00\x00\x00abc\x80\x03",
}
