package gen

import (
	"bytes"
	"fmt"
	"strings"
	"time"

	"seehuhn.de/go/postscript/funit"
	"seehuhn.de/go/postscript/psenc"
	"seehuhn.de/go/postscript/type1"

	"verif/sim"
)

var glyphPool = []string{"space", "A", "B", "C", "D", "E", "a", "b", "c", "d", "e", "one", "two", "three", "period", "comma",
	"hyphen", "Aacute", "adieresis", "fi", "fl", "quotedbl", "exclam", "zero", "at", "bracketleft", "f", "i", "l", "ffi",
	"germandbls", "Zcaron", "g001", "g002", "uni0041", "u1F600", "a.sc", "f_i", "T_h.liga", "x", "y", "z", "dollar", "percent",
	"ampersand", "quoteright", "parenleft", "parenright", "asterisk", "plus", "slash", "four", "five", "six", "seven", "eight", "nine"}

func glyphName(t *sim.Tape, i int) string {
	if i < len(glyphPool) && !t.Bool(1, 8) {
		return glyphPool[i]
	}
	n := 1 + t.Choose(9)
	b := make([]byte, n)
	for j := range b {
		if j == 0 {
			b[j] = byte('a' + t.Choose(26))
		} else {
			const alpha = "abcdefghijklmnopqrstuvwxyzABCDEFG0123456789._"
			b[j] = alpha[t.Choose(len(alpha))]
		}
	}
	return fmt.Sprintf("%s%d", b, i)
}

func infoString(t *sim.Tape) string {
	switch t.Weighted(4, 3, 2, 1) {
	case 0:
		return ""
	case 1:
		return []string{"Regular", "Bold", "Test Font", "001.000", "Copyright (c) 2023 Someone", "Medium"}[t.Choose(6)]
	case 2:
		n := 1 + t.Small(20)
		b := make([]byte, n)
		for i := range b {
			b[i] = byte(32 + t.Choose(95))
		}
		return string(b)
	default:
		n := 1 + t.Small(12)
		b := make([]byte, n)
		for i := range b {
			b[i] = []byte("()\\ab \t%{}<>/")[t.Choose(13)]
		}
		return string(b)
	}
}

func coord(t *sim.Tape, frac bool) float64 {
	v := float64(t.Range(-200, 1000))
	switch t.Choose(8) {
	case 0:
		v = float64(t.Range(-3000, 3000))
	case 1:
		v = float64(t.Range(-20, 20))
	}
	if frac && t.Bool(1, 3) {
		v += []float64{0.5, 0.25, 0.125, 0.75, 1.0 / 3}[t.Choose(5)]
	}
	return v
}

// GenGlyph draws one glyph outline.
func GenGlyph(t *sim.Tape, frac bool) *type1.Glyph {
	g := &type1.Glyph{WidthX: float64(t.Range(0, 1200))}
	if t.Bool(1, 20) {
		g.WidthY = float64(t.Range(-500, 500))
	}
	for i := t.Small(3); i > 0; i-- {
		a := t.Range(-300, 900)
		g.HStem = append(g.HStem, funit.Int16(a), funit.Int16(a+t.Range(1, 120)))
	}
	for i := t.Small(3); i > 0; i-- {
		a := t.Range(-100, 900)
		g.VStem = append(g.VStem, funit.Int16(a), funit.Int16(a+t.Range(1, 120)))
	}
	contours := t.Small(3)
	for c := 0; c < contours; c++ {
		g.MoveTo(coord(t, frac), coord(t, frac))
		for s := 1 + t.Small(8); s > 0; s-- {
			if t.Bool(1, 3) {
				g.CurveTo(coord(t, frac), coord(t, frac), coord(t, frac), coord(t, frac), coord(t, frac), coord(t, frac))
			} else {
				switch t.Choose(3) {
				case 0: // horizontal
					last := g.Cmds[len(g.Cmds)-1].Args
					g.LineTo(coord(t, frac), last[len(last)-1])
				case 1: // vertical
					last := g.Cmds[len(g.Cmds)-1].Args
					g.LineTo(last[len(last)-2], coord(t, frac))
				default:
					g.LineTo(coord(t, frac), coord(t, frac))
				}
			}
		}
		g.ClosePath()
	}
	return g
}

// GenFont draws a font in the writer's domain.  maxGlyphs bounds the glyph
// count.
func GenFont(t *sim.Tape, maxGlyphs int) *type1.Font {
	frac := t.Bool(1, 4)
	f := &type1.Font{
		FontInfo: &type1.FontInfo{
			FontName:           []string{"Test", "Test-Bold", "ABCDEF+Sim-Regular", "X"}[t.Choose(4)],
			Version:            []string{"001.000", "1.0", "", "2.5"}[t.Choose(4)],
			Notice:             infoString(t),
			Copyright:          infoString(t),
			FullName:           infoString(t),
			FamilyName:         infoString(t),
			Weight:             infoString(t),
			ItalicAngle:        []float64{0, -12, 9.5}[t.Choose(3)],
			IsFixedPitch:       t.Bool(1, 4),
			UnderlinePosition:  funit.Float64(t.Range(-200, 0)),
			UnderlineThickness: funit.Float64(t.Range(0, 100)),
			FontMatrix:         [6]float64{0.001, 0, 0, 0.001, 0, 0},
		},
		Private: &type1.PrivateDict{
			BlueScale: 0.039625,
			BlueShift: 7,
			BlueFuzz:  1,
		},
		Glyphs: map[string]*type1.Glyph{},
	}
	if t.Bool(1, 5) {
		f.FontInfo.FontMatrix = [6]float64{0.0005, 0, 0, 0.0005, 0, 0}
	}
	if t.Bool(1, 2) {
		for i := 2 * t.Small(3); i > 0; i-- {
			f.Private.BlueValues = append(f.Private.BlueValues, funit.Int16(t.Range(-20, 800)))
		}
		for i := 2 * t.Small(2); i > 0; i-- {
			f.Private.OtherBlues = append(f.Private.OtherBlues, funit.Int16(t.Range(-300, 0)))
		}
		f.Private.StdHW = float64(t.Choose(120))
		f.Private.StdVW = float64(t.Choose(120))
		f.Private.ForceBold = t.Bool(1, 3)
		if t.Bool(1, 3) {
			f.Private.BlueScale = 0.05
			f.Private.BlueShift = int32(t.Choose(12))
			f.Private.BlueFuzz = int32(t.Choose(3))
		}
	}
	n := 1 + t.Small(maxGlyphs)
	if !t.Bool(1, 6) {
		f.Glyphs[".notdef"] = GenGlyph(t, frac)
	}
	var names []string
	for i := 0; i < n; i++ {
		name := glyphName(t, i)
		if _, dup := f.Glyphs[name]; dup {
			continue
		}
		f.Glyphs[name] = GenGlyph(t, frac)
		names = append(names, name)
	}
	if t.Choose(12) == 0 {
		// names beyond the 127 bytes many PostScript implementations allow,
		// agreeing in their first 127 bytes
		stem := strings.Repeat("longglyphname", 10)[:127]
		for _, suf := range []string{"A", "B", "Ca"}[:2+t.Choose(2)] {
			f.Glyphs[stem+suf] = GenGlyph(t, frac)
			names = append(names, stem+suf)
		}
	}
	switch t.Weighted(3, 3, 3) {
	case 0:
		f.Encoding = nil
	case 1:
		f.Encoding = make([]string, 256)
		copy(f.Encoding, psenc.StandardEncoding[:])
		for i, nm := range f.Encoding {
			if _, ok := f.Glyphs[nm]; !ok {
				f.Encoding[i] = ".notdef"
			}
		}
	default:
		f.Encoding = make([]string, 256)
		for i := range f.Encoding {
			f.Encoding[i] = ".notdef"
		}
		for _, nm := range names {
			if t.Bool(2, 3) {
				f.Encoding[t.Choose(256)] = nm
			}
		}
	}
	if t.Bool(1, 2) {
		loc := time.UTC
		switch t.Choose(4) {
		case 1:
			loc = time.FixedZone("CET", 3600)
		case 2:
			loc = time.FixedZone("", -(5*3600 + 1800))
		}
		f.CreationDate = time.Date(2000+t.Choose(30), time.Month(1+t.Choose(12)), 1+t.Choose(28), t.Choose(24), t.Choose(60), t.Choose(60), 0, loc)
	}
	return f
}

// FontFormats lists the four file formats.
var FontFormats = []type1.FileFormat{type1.FormatPFA, type1.FormatPFB, type1.FormatBinary, type1.FormatNoEExec}

// FontFile serialises f with the library's writer.
func FontFile(f *type1.Font, format type1.FileFormat) ([]byte, error) {
	var buf bytes.Buffer
	err := f.Write(&buf, &type1.WriterOptions{Format: format})
	return buf.Bytes(), err
}

// Relayout re-lays-out a PFA/binary/PFB font file written by the library:
// the eexec section is decrypted with the harness's own cipher and encrypted
// again with another lead, hex case and line layout; PFB streams are
// re-segmented.  This is input diversity for the stream layer, not an oracle.
func Relayout(t *sim.Tape, file []byte, format type1.FileFormat) []byte {
	switch format {
	case type1.FormatPFB:
		segs := pfbSplit(file)
		if segs == nil {
			return file
		}
		var out []byte
		for _, s := range segs {
			data := s.Data
			// cut each segment into pieces of arbitrary, also zero, length
			for len(data) > 0 || t.Bool(1, 6) {
				k := 0
				if len(data) > 0 {
					switch t.Choose(4) {
					case 0:
						k = len(data)
					case 1:
						k = t.Choose(len(data) + 1)
					case 2:
						k = min(len(data), 1+t.Choose(7))
					default:
						k = min(len(data), t.Choose(600))
					}
				}
				out = append(out, 0x80, s.Type, byte(k), byte(k>>8), byte(k>>16), byte(k>>24))
				out = append(out, data[:k]...)
				data = data[k:]
				if len(data) == 0 {
					break
				}
			}
		}
		out = append(out, 0x80, 3)
		if t.Bool(1, 4) {
			out = append(out, t.Bytes(1+t.Choose(9))...)
		}
		return out
	case type1.FormatPFA, type1.FormatBinary:
		i := bytes.Index(file, []byte("currentfile eexec\n"))
		if i < 0 {
			return file
		}
		head := file[:i]
		rest := file[i+len("currentfile eexec\n"):]
		var cipher, trailer []byte
		tc := append(bytes.Repeat([]byte("0000000000000000000000000000000000000000000000000000000000000000\n"), 8), "cleartomark\n"...)
		if !bytes.HasSuffix(rest, tc) || len(rest) < len(tc)+1 {
			return file
		}
		trailer = tc
		body := rest[:len(rest)-len(tc)]
		if format == type1.FormatPFA {
			var nib []byte
			for _, c := range body {
				switch {
				case c >= '0' && c <= '9':
					nib = append(nib, c-'0')
				case c >= 'a' && c <= 'f':
					nib = append(nib, c-'a'+10)
				case c >= 'A' && c <= 'F':
					nib = append(nib, c-'A'+10)
				}
			}
			for k := 0; k+1 < len(nib); k += 2 {
				cipher = append(cipher, nib[k]<<4|nib[k+1])
			}
		} else {
			cipher = body[:len(body)-1] // the writer puts one newline after the binary section
		}
		if len(cipher) < 4 {
			return file
		}
		plain := EexecDecrypt(cipher)[4:]
		toBinary := t.Bool(1, 2)
		return WrapEexec(t, head, plain, trailer, toBinary)
	}
	return file
}

type pfbSeg struct {
	Type byte
	Data []byte
}

func pfbSplit(file []byte) []pfbSeg {
	var segs []pfbSeg
	for len(file) >= 2 {
		if file[0] != 0x80 {
			return nil
		}
		if file[1] == 3 {
			return segs
		}
		if len(file) < 6 {
			return nil
		}
		n := int(file[2]) | int(file[3])<<8 | int(file[4])<<16 | int(file[5])<<24
		if len(file) < 6+n {
			return nil
		}
		segs = append(segs, pfbSeg{file[1], file[6 : 6+n]})
		file = file[6+n:]
	}
	return segs
}

// DescribeFont is a one-line description for evidence samples.
func DescribeFont(f *type1.Font) string {
	enc := "nil"
	if f.Encoding != nil {
		enc = "256"
	}
	names := f.GlyphList()
	if len(names) > 4 {
		names = names[:4]
	}
	return fmt.Sprintf("font %s: %d glyphs, encoding=%s, date=%v, e.g. %s", f.FontInfo.FontName, len(f.Glyphs), enc, !f.CreationDate.IsZero(), strings.Join(names, ","))
}

// ---------------------------------------------------------------------------
// accented composites (seac): the library's writer never emits them, so the
// harness injects them into a no-eexec font file written by the library.

func t1Int(v int) []byte {
	switch {
	case v >= -107 && v <= 107:
		return []byte{byte(v + 139)}
	case v >= 108 && v <= 1131:
		v -= 108
		return []byte{byte(247 + v>>8), byte(v)}
	case v >= -1131 && v <= -108:
		v = -v - 108
		return []byte{byte(251 + v>>8), byte(v)}
	}
	return []byte{255, byte(v >> 24), byte(v >> 16), byte(v >> 8), byte(v)}
}

func csObfuscate(plain []byte) []byte {
	r := uint16(4330)
	in := append([]byte{'s', 'e', 'a', 'c'}, plain...) // lenIV = 4 lead bytes
	out := make([]byte, len(in))
	for i, p := range in {
		c := p ^ byte(r>>8)
		r = (uint16(c)+r)*52845 + 22719
		out[i] = c
	}
	return out
}

// SeacFont draws a font file (no-eexec format) that contains 2-4 accented
// composite glyphs, possibly nested (a composite whose base or accent is
// itself a composite, referenced forwards or backwards in name order).
func SeacFont(t *sim.Tape) ([]byte, string) { return seacFont(t, false) }

// BigSeacFont is SeacFont with well over a hundred glyphs (readers may treat
// large fonts differently, e.g. decode them in parallel).
func BigSeacFont(t *sim.Tape) ([]byte, string) { return seacFont(t, true) }

func seacFont(t *sim.Tape, big bool) ([]byte, string) {
	f := GenFont(t, 5)
	if big {
		want := 110 + t.Choose(60)
		if t.Choose(3) == 0 {
			want = 250 + t.Choose(90) // around and beyond 256 charstrings
		}
		for i := 0; len(f.Glyphs) < want; i++ {
			g := &type1.Glyph{WidthX: float64(400 + i%50)}
			g.MoveTo(float64(i), 0)
			g.LineTo(float64(i+40), 10)
			g.LineTo(float64(i+20), float64(100+i))
			g.ClosePath()
			f.Glyphs[fmt.Sprintf("%c%cfill%d", 'a'+byte(i%26), 'A'+byte((i/3)%26), i)] = g
		}
	}
	f.Encoding = make([]string, 256)
	for i := range f.Encoding {
		f.Encoding[i] = ".notdef"
	}
	var base []string
	for _, n := range f.GlyphList() {
		if n != ".notdef" && len(f.Glyphs[n].Cmds) > 0 {
			base = append(base, n)
		}
	}
	for len(base) < 2 {
		n := fmt.Sprintf("base%d", len(base))
		f.Glyphs[n] = GenGlyph(t, false)
		if len(f.Glyphs[n].Cmds) == 0 {
			f.Glyphs[n].MoveTo(10, 10)
			f.Glyphs[n].LineTo(100, 10)
			f.Glyphs[n].LineTo(50, 200)
			f.Glyphs[n].ClosePath()
		}
		base = append(base, n)
	}
	if len(base) > 100 {
		base = base[:100] // codes 65..164; the composites use 200..
	}
	code := map[string]int{}
	for i, n := range base {
		code[n] = 65 + i
		f.Encoding[65+i] = n
	}
	compNames := []string{"Acomp", "Zcomp", "Mcomp", "aacute", "Ydieresis", "Bcomp"}
	k := 2 + t.Choose(3)
	if big {
		k = 4 + t.Choose(3)
	}
	var comps []string
	for i := 0; i < k; i++ {
		n := compNames[(t.Choose(len(compNames))+i)%len(compNames)]
		for code[n] != 0 {
			n += "x"
		}
		comps = append(comps, n)
		code[n] = 200 + i
		f.Encoding[200+i] = n
		f.Glyphs[n] = &type1.Glyph{WidthX: float64(300 + 10*i)}
	}
	// optional extras, injected the same way: a glyph whose first point is NaN
	// (`0 0 div`), and two glyphs that cannot be decoded, each for its own reason
	extras := map[string][]byte{}
	if t.Bool(1, 3) {
		cs := append(append(t1Int(0), t1Int(500)...), 13)                 // 0 500 hsbw
		cs = append(append(append(cs, t1Int(0)...), t1Int(0)...), 12, 12) // 0 0 div
		cs = append(append(cs, t1Int(0)...), 21)                          // 0 rmoveto
		cs = append(append(cs, t1Int(100)...), 6)                         // 100 hlineto
		cs = append(cs, 9, 14)                                            // closepath endchar
		extras["Nanglyph"] = cs
	}
	if t.Bool(1, 3) {
		extras["Bad1"] = []byte{13}           // hsbw without operands
		extras["Tbad2"] = []byte{139, 12, 99} // unknown escape
		if t.Bool(1, 2) {
			extras["abad3"] = append(bytes.Repeat([]byte{140}, 30), 14) // operand stack overflow
		}
	}
	for n := range extras {
		f.Glyphs[n] = &type1.Glyph{WidthX: 500}
	}
	file, err := FontFile(f, type1.FormatNoEExec)
	if err != nil {
		return nil, "seac font outside the writer's domain"
	}
	exNames := make([]string, 0, len(extras))
	for n := range extras {
		exNames = append(exNames, n)
	}
	sortStrings(exNames)
	all := append(append([]string{}, base...), comps...)
	desc := "seac font:"
	for _, n := range exNames {
		file = replaceCharstring(file, n, csObfuscate(extras[n]))
		desc += " " + n + "=injected"
	}
	for i, n := range comps {
		b, a := all[t.Choose(len(all))], all[t.Choose(len(all))]
		var cs []byte
		cs = append(cs, t1Int(0)...)
		cs = append(cs, t1Int(300+10*i)...)
		cs = append(cs, 13) // hsbw
		cs = append(cs, t1Int(0)...)
		cs = append(cs, t1Int(t.Range(-50, 200))...)
		cs = append(cs, t1Int(t.Range(-50, 300))...)
		cs = append(cs, t1Int(code[b])...)
		cs = append(cs, t1Int(code[a])...)
		cs = append(cs, 12, 6) // seac
		cs = append(cs, 14)    // endchar
		obf := csObfuscate(cs)
		desc += fmt.Sprintf(" %s=seac(%s,%s)", n, b, a)
		file = replaceCharstring(file, n, obf)
	}
	return file, desc
}

// replaceCharstring replaces the placeholder entry `/name L RD <L bytes> ND` of
// a no-eexec font file.
func replaceCharstring(file []byte, n string, obf []byte) []byte {
	key := []byte("\n/" + n + " ")
	at := bytes.Index(file, key)
	if at < 0 {
		return file
	}
	j := at + len(key)
	l := 0
	for j < len(file) && file[j] >= '0' && file[j] <= '9' {
		l = l*10 + int(file[j]-'0')
		j++
	}
	if !bytes.HasPrefix(file[j:], []byte(" RD ")) {
		return file
	}
	end := j + 4 + l // end of the binary data
	entry := []byte(fmt.Sprintf("\n/%s %d RD ", n, len(obf)))
	entry = append(entry, obf...)
	return append(append(append([]byte{}, file[:at]...), entry...), file[end:]...)
}

// Redate rewrites the %%CreationDate comment of a font file written by the
// library into one of the other layouts the reader accepts (or a layout it does
// not understand).
func Redate(t *sim.Tape, file []byte) []byte {
	i := bytes.Index(file, []byte("%%CreationDate: "))
	if i < 0 {
		return file
	}
	j := bytes.IndexByte(file[i:], '\n')
	if j < 0 {
		return file
	}
	old := string(file[i+len("%%CreationDate: ") : i+j])
	tm, err := time.Parse("2006-01-02 15:04:05 -0700 MST", old)
	if err != nil {
		return file
	}
	layouts := []string{"Mon Jan 2 15:04:05 2006", "Mon, 2 Jan 2006 15:04:05", "Mon Jan 2 2006", "2006-01-02 15:04:05 -0700 MST", "02.01.2006"}
	repl := tm.Format(layouts[t.Choose(len(layouts))])
	out := append([]byte{}, file[:i+len("%%CreationDate: ")]...)
	out = append(out, repl...)
	out = append(out, file[i+j:]...)
	return out
}

// AliasFont returns a no-eexec font file without /FontName that registers the
// same font dictionary under two names (legal PostScript; which name a reader
// reports must not vary).
func AliasFont(t *sim.Tape) []byte {
	f := GenFont(t, 4)
	file, err := FontFile(f, type1.FormatNoEExec)
	if err != nil {
		return nil
	}
	i := bytes.Index(file, []byte("\n/FontName "))
	if i >= 0 {
		j := bytes.IndexByte(file[i+1:], '\n')
		file = append(append([]byte{}, file[:i]...), file[i+1+j:]...)
	}
	old := []byte("dup /FontName get exch definefont pop")
	k := bytes.Index(file, old)
	if k < 0 {
		return nil
	}
	a, b := "Zeta", "Alpha"
	if t.Bool(1, 2) {
		a, b = b, a
	}
	repl := fmt.Sprintf("dup /%s exch definefont /%s exch definefont pop", a, b)
	return append(append(append([]byte{}, file[:k]...), repl...), file[k+len(old):]...)
}

// LenIVFont returns a no-eexec font file whose charstrings carry n lead bytes
// instead of the default four, announced by `/lenIV n def` in the Private
// dictionary (legal, rare; the library's writer never produces it).
func LenIVFont(t *sim.Tape) ([]byte, int) {
	f := GenFont(t, 5)
	file, err := FontFile(f, type1.FormatNoEExec)
	if err != nil {
		return nil, 4
	}
	n := []int{0, 1, 2, 8, 5}[t.Choose(5)]
	for name := range f.Glyphs {
		key := []byte("\n/" + name + " ")
		at := bytes.Index(file, key)
		if at < 0 {
			continue
		}
		j := at + len(key)
		l := 0
		for j < len(file) && file[j] >= '0' && file[j] <= '9' {
			l = l*10 + int(file[j]-'0')
			j++
		}
		if !bytes.HasPrefix(file[j:], []byte(" RD ")) || j+4+l > len(file) || l < 4 {
			continue
		}
		cipher := file[j+4 : j+4+l]
		// decrypt with the standard charstring cipher (key 4330), drop the 4
		// lead bytes, encrypt again with n lead bytes
		r := uint16(4330)
		plain := make([]byte, l)
		for i, c := range cipher {
			plain[i] = c ^ byte(r>>8)
			r = (uint16(c)+r)*52845 + 22719
		}
		plain = plain[4:]
		in := append(make([]byte, n), plain...)
		r = 4330
		out := make([]byte, len(in))
		for i, p := range in {
			c := p ^ byte(r>>8)
			r = (uint16(c)+r)*52845 + 22719
			out[i] = c
		}
		file = replaceCharstring(file, name, out)
	}
	marker := []byte("/Private 15 dict dup begin\n")
	k := bytes.Index(file, marker)
	if k < 0 {
		return nil, 4
	}
	ins := []byte(fmt.Sprintf("/lenIV %d def\n", n))
	file = append(append(append([]byte{}, file[:k+len(marker)]...), ins...), file[k+len(marker):]...)
	return file, n
}

// AltLayoutFont re-arranges a no-eexec font file written by the library into
// an equivalent, legal but unusual layout: the (still empty) Private and
// CharStrings dictionaries are entered into the font dictionary first and
// filled afterwards.  A file of this layout that is cut off inside the glyph
// list leaves a half-filled font dictionary behind.
func AltLayoutFont(t *sim.Tape, maxGlyphs int) ([]byte, string) {
	f := GenFont(t, maxGlyphs)
	file, err := FontFile(f, type1.FormatNoEExec)
	if err != nil {
		return nil, ""
	}
	a := []byte("dup /Private 15 dict dup begin\n")
	i := bytes.Index(file, a)
	b := []byte("\n2 index /CharStrings ")
	j := bytes.Index(file, b)
	c := []byte("end\nend\nreadonly put\nput\ndup /FontName get exch definefont pop\n")
	k := bytes.LastIndex(file, c)
	if i < 0 || j < i || k < j {
		return nil, ""
	}
	// "2 index /CharStrings N dict dup begin\n"
	lineEnd := j + 1 + bytes.IndexByte(file[j+1:], '\n')
	line := string(file[j+1 : lineEnd])
	var n int
	if _, err := fmt.Sscanf(line, "2 index /CharStrings %d dict dup begin", &n); err != nil {
		return nil, ""
	}
	var out []byte
	out = append(out, file[:i]...)
	out = append(out, fmt.Sprintf("dup /Private 15 dict put\ndup /CharStrings %d dict put\ndup /Private get begin\n", n)...)
	out = append(out, file[i+len(a):j+1]...)
	out = append(out, "dup /CharStrings get begin\n"...)
	out = append(out, file[lineEnd+1:k]...)
	out = append(out, "end\nend\ndup /FontName get exch definefont pop\n"...)
	out = append(out, file[k+len(c):]...)
	return out, DescribeFont(f) + ", dictionaries entered before they are filled"
}

// LongGlyph draws a glyph whose charstring is well over 512 bytes long.
func LongGlyph(t *sim.Tape) *type1.Glyph {
	g := &type1.Glyph{WidthX: float64(t.Range(200, 900))}
	x, y := 0.0, 0.0
	g.MoveTo(x, y)
	for s := 130 + t.Choose(200); s > 0; s-- {
		x += float64(t.Range(-300, 300))
		y += float64(t.Range(-300, 300))
		if t.Bool(1, 3) {
			g.CurveTo(x+10, y-7, x+123, y+201, x-150, y+333)
			x, y = x-150, y+333
		} else {
			g.LineTo(x, y)
		}
	}
	g.ClosePath()
	return g
}

// CaseVariantFont returns a font file whose FontInfo dictionary also holds
// entries whose keys differ from the standard ones in letter case only (legal:
// PostScript names are case sensitive), with other values.
func CaseVariantFont(t *sim.Tape) []byte {
	f := GenFont(t, 3)
	format := []type1.FileFormat{type1.FormatNoEExec, type1.FormatPFA}[t.Choose(2)]
	file, err := FontFile(f, format)
	if err != nil {
		return nil
	}
	at := bytes.Index(file, []byte("/FullName "))
	if at < 0 {
		return nil
	}
	extra := ""
	for _, e := range []string{"/Version (9.9) def\n", "/VERSION (8.8) def\n", "/notice (other notice) def\n", "/fullname (Other Full) def\n", "/familyname (Other) def\n",
		"/weight (Heavy) def\n", "/WEIGHT (Light) def\n", "/italicangle 45 def\n", "/IsFixedPitch true def\n", "/underlineposition -1 def\n", "/Copyright (c1) def\n", "/copyright (c2) def\n"} {
		if t.Bool(1, 2) {
			extra += e
		}
	}
	// the dictionary was created with room for 11 entries; PostScript level 2
	// dictionaries grow, and so do this interpreter's
	return append(append(append([]byte{}, file[:at]...), extra...), file[at:]...)
}

// BadFontMatrixFont returns a font file that is complete except that one
// FontMatrix entry is not a number (the reader rejects it after having
// interpreted the whole program).
func BadFontMatrixFont(t *sim.Tape) []byte {
	f := GenFont(t, 3)
	file, err := FontFile(f, FontFormats[t.Choose(len(FontFormats))])
	if err != nil {
		return nil
	}
	old := []byte("/FontMatrix [0.001 0 0 0.001 0 0] def")
	if !bytes.Contains(file, old) {
		old = []byte("/FontMatrix [0.0005 0 0 0.0005 0 0] def")
	}
	repl := []string{"/FontMatrix [0.001 0 0 (x) 0 0] def", "/FontMatrix [0.001 0 0 0.001 0 /n] def", "/FontMatrix [true 0 0 0.001 0 0] def"}[t.Choose(3)]
	// PFB: the text segment's length field must follow the new size
	out := bytes.Replace(file, old, []byte(repl), 1)
	if len(file) > 6 && file[0] == 0x80 && file[1] == 1 {
		n := int(file[2]) | int(file[3])<<8 | int(file[4])<<16 | int(file[5])<<24
		n += len(repl) - len(old)
		out[2], out[3], out[4], out[5] = byte(n), byte(n>>8), byte(n>>16), byte(n>>24)
	}
	return out
}

// FractionalWidthFont returns a no-eexec font file without .notdef and without
// space whose glyphs have non-integer advance widths (`sbx num den div hsbw`),
// which only a foreign producer writes.
func FractionalWidthFont(t *sim.Tape) []byte {
	f := GenFont(t, 2)
	delete(f.Glyphs, ".notdef")
	delete(f.Glyphs, "space")
	n := 5 + t.Choose(40)
	var names []string
	for i := 0; i < n; i++ {
		name := fmt.Sprintf("fw%c%d", 'a'+byte(i%26), i)
		f.Glyphs[name] = &type1.Glyph{WidthX: 500}
		names = append(names, name)
	}
	if f.Encoding != nil {
		for i, e := range f.Encoding {
			if e == "space" {
				f.Encoding[i] = ".notdef"
			}
		}
	}
	file, err := FontFile(f, type1.FormatNoEExec)
	if err != nil {
		return nil
	}
	for _, name := range names {
		var cs []byte
		cs = append(cs, t1Int(0)...)
		cs = append(cs, t1Int(1000+t.Choose(9000))...)
		cs = append(cs, t1Int(3+2*t.Choose(50))...)
		cs = append(cs, 12, 12) // div
		cs = append(cs, 13)     // hsbw
		cs = append(cs, t1Int(10)...)
		cs = append(cs, t1Int(20)...)
		cs = append(cs, 21) // rmoveto
		cs = append(cs, t1Int(100)...)
		cs = append(cs, 6)     // hlineto
		cs = append(cs, 9, 14) // closepath endchar
		file = replaceCharstring(file, name, csObfuscate(cs))
	}
	return file
}

// SubrFontPair returns two no-eexec font files that use charstring subroutines
// (the library's writer never does).  The first is an ordinary font whose glyphs
// call the subroutines; the second declares `/lenIV 0` and carries subroutine
// entries with the very same bytes, which under its lenIV mean something else.
func SubrFontPair(t *sim.Tape) (ordinary, other []byte) {
	mk := func(lenIV int) []byte {
		f := GenFont(t, 2)
		f.Glyphs["usesubr"] = &type1.Glyph{WidthX: 600}
		f.Glyphs["usesubr2"] = &type1.Glyph{WidthX: 610}
		file, err := FontFile(f, type1.FormatNoEExec)
		if err != nil {
			return nil
		}
		// subroutines: "100 0 rlineto return" and "0 50 rlineto return"
		sub0 := append(append(append(t1Int(100), t1Int(0)...), 5), 11)
		sub1 := append(append(append(t1Int(0), t1Int(50)...), 5), 11)
		s0, s1 := csObfuscate(sub0), csObfuscate(sub1) // always the lenIV-4 form: the bytes are shared
		subrs := fmt.Sprintf("/Subrs 2 array\ndup 0 %d RD ", len(s0)) + string(s0) + fmt.Sprintf(" NP\ndup 1 %d RD ", len(s1)) + string(s1) + " NP\n"
		if lenIV != 4 {
			subrs = fmt.Sprintf("/lenIV %d def\n", lenIV) + subrs
		}
		file = bytes.Replace(file, []byte("/Subrs 0 array\n"), []byte(subrs), 1)
		// glyphs: 0 w hsbw 10 10 rmoveto 0 callsubr 1 callsubr closepath endchar
		var cs []byte
		cs = append(cs, t1Int(0)...)
		cs = append(cs, t1Int(600)...)
		cs = append(cs, 13)
		cs = append(cs, t1Int(10)...)
		cs = append(cs, t1Int(10)...)
		cs = append(cs, 21)
		cs = append(cs, t1Int(0)...)
		cs = append(cs, 10) // callsubr
		cs = append(cs, t1Int(1)...)
		cs = append(cs, 10)
		cs = append(cs, 9, 14)
		enc := csObfuscate(cs)
		if lenIV == 0 {
			// lenIV 0: no lead bytes
			r := uint16(4330)
			enc = make([]byte, len(cs))
			for i, p := range cs {
				c := p ^ byte(r>>8)
				r = (uint16(c)+r)*52845 + 22719
				enc[i] = c
			}
			// the other glyphs of this file were written with four lead bytes;
			// under lenIV 0 they decode to something else, which is all right
		}
		file = replaceCharstring(file, "usesubr", enc)
		file = replaceCharstring(file, "usesubr2", enc)
		return file
	}
	return mk(4), mk(0)
}

// SiblingFont returns a new font, sharing no memory with f, that has the same
// structure as f (glyph names, number of commands and hints, widths) and
// outlines moved by k units: a different font that looks the same to anything
// that only counts.
func SiblingFont(f *type1.Font, k int) *type1.Font {
	g := *f
	if f.FontInfo != nil {
		fi := *f.FontInfo
		g.FontInfo = &fi
	}
	if f.Private != nil {
		pd := *f.Private
		pd.BlueValues = append(pd.BlueValues[:0:0], pd.BlueValues...)
		pd.OtherBlues = append(pd.OtherBlues[:0:0], pd.OtherBlues...)
		g.Private = &pd
	}
	g.Encoding = append([]string(nil), f.Encoding...)
	g.Glyphs = make(map[string]*type1.Glyph, len(f.Glyphs))
	for name, gl := range f.Glyphs {
		n := &type1.Glyph{WidthX: gl.WidthX, WidthY: gl.WidthY}
		n.HStem = append(n.HStem, gl.HStem...)
		n.VStem = append(n.VStem, gl.VStem...)
		for _, c := range gl.Cmds {
			args := append([]float64(nil), c.Args...)
			for i := range args {
				args[i] += float64(k)
			}
			n.Cmds = append(n.Cmds, type1.GlyphOp{Op: c.Op, Args: args})
		}
		g.Glyphs[name] = n
	}
	return &g
}

// TinyFont writes a complete font program by hand (no eexec section, glyphs as
// hexadecimal string literals), between about 250 and 800 bytes long: small
// enough for a whole file to fit into whatever a reader peeks at or buffers
// first.
func TinyFont(t *sim.Tape) []byte {
	var sb strings.Builder
	name := []string{"Tiny", "T", "Tiny-BoldItalic"}[t.Choose(3)]
	sb.WriteString([]string{"%!PS-AdobeFont-1.0: " + name + " 001.000\n", "%!FontType1-1.0: " + name + "\n", "%!\n", "%!PS-AdobeFont-1.0: " + name + " 001.000\r\n%%Title: " + name + "\r\n"}[t.Choose(4)])
	nl := []string{"\n", " ", "\r\n"}[t.Choose(3)]
	sb.WriteString("11 dict begin" + nl + "/FontType 1 def" + nl + "/FontName /" + name + " def" + nl)
	if t.Bool(1, 2) {
		fmt.Fprintf(&sb, "/FontInfo 3 dict dup begin /ItalicAngle %d def /isFixedPitch %v def end def%s", -t.Choose(20), t.Bool(1, 2), nl)
	} else {
		sb.WriteString("/FontInfo 1 dict def" + nl)
	}
	sb.WriteString("/FontMatrix [0.001 0 0 0.001 0 0] def" + nl)
	if t.Bool(1, 2) {
		sb.WriteString("/Encoding StandardEncoding def" + nl)
	} else {
		sb.WriteString("/Encoding 256 array 0 1 255 {1 index exch /.notdef put} for dup 65 /A put def" + nl)
	}
	sb.WriteString("/Private 2 dict dup begin /BlueValues [] def")
	if t.Bool(1, 3) {
		sb.WriteString(" /StdHW [ 50 ] def")
	}
	sb.WriteString(" end def" + nl)
	n := t.Choose(4)
	fmt.Fprintf(&sb, "/CharStrings %d dict dup begin%s", n+1, nl)
	for i := 0; i < n; i++ {
		cs := append(append(t1Int(t.Choose(60)), t1Int(300+t.Choose(600))...), 13) // sbx wx hsbw
		if t.Bool(1, 2) {
			cs = append(append(append(cs, t1Int(t.Choose(100))...), t1Int(t.Choose(100))...), 21) // rmoveto
			cs = append(append(cs, t1Int(100+t.Choose(400))...), 6)                                // hlineto
			cs = append(append(cs, t1Int(50+t.Choose(400))...), 7)                                 // vlineto
			cs = append(cs, 9)                                                                     // closepath
		}
		cs = append(cs, 14)
		fmt.Fprintf(&sb, "/%s <%x> def%s", []string{"A", ".notdef", "space", "B"}[i], csObfuscate(cs), nl)
	}
	sb.WriteString("end def" + nl + "currentdict end" + nl + "/" + name + " exch definefont pop" + nl)
	if t.Bool(1, 3) {
		sb.WriteString("% " + strings.Repeat("padding ", t.Choose(40)) + "\n")
	}
	return []byte(sb.String())
}
