package gen

import (
	"fmt"
	"strings"

	"seehuhn.de/go/geom/rect"
	"seehuhn.de/go/postscript/afm"
	"seehuhn.de/go/postscript/funit"

	"verif/sim"
)

func hexCode(t *sim.Tape, n int) string {
	b := t.Bytes(n)
	return fmt.Sprintf("<%x>", b)
}

func codeRange(t *sim.Tape, n int) (string, string) {
	lo := t.Bytes(n)
	hi := append([]byte{}, lo...)
	// raise the last byte so that lo <= hi
	hi[n-1] = byte(int(lo[n-1]) + t.Choose(256-int(lo[n-1])))
	return fmt.Sprintf("<%x>", lo), fmt.Sprintf("<%x>", hi)
}

// GenCMapOne draws the text of one CMap resource (without the surrounding
// findresource begin ... end end).
func genCMapBody(t *sim.Tape, name string, sb *strings.Builder, others []string) {
	ws := func() string {
		return []string{"\n", " ", "\n\n", "\r\n", " % c\n", "\t"}[t.Weighted(8, 3, 1, 1, 1, 1)]
	}
	fmt.Fprintf(sb, "12 dict begin%sbegincmap%s", ws(), ws())
	fmt.Fprintf(sb, "/CIDSystemInfo 3 dict dup begin /Registry (Adobe) def /Ordering (%s) def /Supplement %d def end def%s", []string{"Identity", "Japan1", "UCS"}[t.Choose(3)], t.Choose(7), ws())
	// the /CMapName entry normally repeats the resource key, but nothing makes
	// it: one file in four has CMaps whose entries all say the same (small) name
	entry := name
	if len(others) > 0 && t.Choose(4) == 0 {
		entry = []string{"!", "Shared", "-"}[t.Choose(3)]
	}
	fmt.Fprintf(sb, "/CMapName /%s def%s/CMapVersion 1.0 def%s/CMapType %d def%s", entry, ws(), ws(), t.Choose(3), ws())
	if t.Bool(1, 2) {
		fmt.Fprintf(sb, "/WMode %d def%s", t.Choose(2), ws())
	}
	noCodespace := false
	if len(others) > 0 && t.Bool(1, 2) {
		// a CMap of the same file as parent (chains and forward references are
		// legal); such derived CMaps often have no code space of their own
		fmt.Fprintf(sb, "/%s usecmap%s", sim.Pick(t, others), ws())
		noCodespace = t.Bool(2, 3)
	} else if t.Bool(1, 4) {
		fmt.Fprintf(sb, "/%s usecmap%s", []string{"Identity-H", "Base-0"}[t.Choose(2)], ws())
	}
	blocks := 1 + t.Small(8)
	for b := 0; b < blocks; b++ {
		n := t.Small(100)
		if t.Bool(1, 30) {
			n = 100
		}
		kind := t.Choose(7)
		if kind == 0 && noCodespace {
			kind = 1
		}
		cl := 1 + t.Choose(4)
		switch kind {
		case 0:
			fmt.Fprintf(sb, "%d begincodespacerange%s", n, ws())
			for i := 0; i < n; i++ {
				lo, hi := codeRange(t, cl)
				fmt.Fprintf(sb, "%s %s%s", lo, hi, ws())
			}
			sb.WriteString("endcodespacerange" + ws())
		case 1, 5:
			nm := []string{"", "cidchar", "", "", "", "notdefchar"}[kind]
			fmt.Fprintf(sb, "%d begin%s%s", n, nm, ws())
			for i := 0; i < n; i++ {
				fmt.Fprintf(sb, "%s %d%s", hexCode(t, cl), t.Choose(65536), ws())
			}
			fmt.Fprintf(sb, "end%s%s", nm, ws())
		case 2, 6:
			nm := []string{"", "", "cidrange", "", "", "", "notdefrange"}[kind]
			fmt.Fprintf(sb, "%d begin%s%s", n, nm, ws())
			for i := 0; i < n; i++ {
				lo, hi := codeRange(t, cl)
				fmt.Fprintf(sb, "%s %s %d%s", lo, hi, t.Choose(65536), ws())
			}
			fmt.Fprintf(sb, "end%s%s", nm, ws())
		case 3:
			fmt.Fprintf(sb, "%d beginbfchar%s", n, ws())
			for i := 0; i < n; i++ {
				if t.Bool(1, 4) {
					fmt.Fprintf(sb, "%s /%s%s", hexCode(t, cl), []string{"A", "space", "fi"}[t.Choose(3)], ws())
				} else {
					fmt.Fprintf(sb, "%s %s%s", hexCode(t, cl), hexCode(t, 2*(1+t.Choose(2))), ws())
				}
			}
			sb.WriteString("endbfchar" + ws())
		case 4:
			fmt.Fprintf(sb, "%d beginbfrange%s", n, ws())
			for i := 0; i < n; i++ {
				lo, hi := codeRange(t, cl)
				if t.Bool(1, 4) {
					fmt.Fprintf(sb, "%s %s [%s %s]%s", lo, hi, hexCode(t, 2), hexCode(t, 2), ws())
				} else {
					fmt.Fprintf(sb, "%s %s %s%s", lo, hi, hexCode(t, 2), ws())
				}
			}
			sb.WriteString("endbfrange" + ws())
		}
	}
	if entry != name {
		fmt.Fprintf(sb, "endcmap%s/%s currentdict /CMap defineresource pop%send%s", ws(), name, ws(), ws())
		return
	}
	fmt.Fprintf(sb, "endcmap%sCMapName currentdict /CMap defineresource pop%send%s", ws(), ws(), ws())
}

// GenCMapFile draws a CMap resource file defining ncmaps CMaps (1 for the
// standard form).
func GenCMapFile(t *sim.Tape, ncmaps int) []byte {
	var sb strings.Builder
	if t.Bool(2, 3) {
		sb.WriteString("%!PS-Adobe-3.0 Resource-CMap\n%%DocumentNeededResources: ProcSet (CIDInit)\n%%IncludeResource: ProcSet (CIDInit)\n%%BeginResource: CMap (Test)\n%%Title: (Test Adobe Identity 0)\n%%Version: 1\n%%EndComments\n")
	}
	sb.WriteString("/CIDInit /ProcSet findresource begin\n")
	names := []string{"Test-H", "Alpha", "beta", "Zeta-V", "M0", "aaa", "", "A", "a", "B-", "0", "Alph", "~", "-"}
	used := map[string]bool{}
	var chosen []string
	for i := 0; i < ncmaps; i++ {
		name := sim.Pick(t, names)
		for used[name] {
			name += "x"
		}
		used[name] = true
		chosen = append(chosen, name)
	}
	for i, name := range chosen {
		var others []string
		for j, o := range chosen {
			if j != i && o != "" {
				others = append(others, o)
			}
		}
		genCMapBody(t, name, &sb, others)
	}
	sb.WriteString("end\n")
	if t.Bool(1, 2) {
		sb.WriteString("%%EndResource\n%%EOF\n")
	}
	return []byte(sb.String())
}

// ---------------------------------------------------------------------------

func afmName(t *sim.Tape, i int) string {
	if i < len(glyphPool) {
		return glyphPool[i]
	}
	return fmt.Sprintf("g%03d", i)
}

// GenMetrics draws an afm.Metrics value in the representable domain (integral
// numbers, single-token names, well-formed bounding boxes).
func GenMetrics(t *sim.Tape, maxGlyphs int) *afm.Metrics {
	m := &afm.Metrics{
		Glyphs:             map[string]*afm.GlyphInfo{},
		FontName:           []string{"Test-Regular", "X", "Sim-BoldItalic"}[t.Choose(3)],
		FullName:           []string{"Test Regular", "X", "Sim Bold Italic"}[t.Choose(3)],
		CapHeight:          float64(t.Range(0, 800)),
		XHeight:            float64(t.Range(0, 600)),
		Ascent:             float64(t.Range(0, 1000)),
		Descent:            float64(-t.Range(0, 400)),
		UnderlinePosition:  float64(-t.Range(0, 200)),
		UnderlineThickness: float64(t.Range(0, 100)),
		ItalicAngle:        []float64{0, -12, 7.5}[t.Choose(3)],
		IsFixedPitch:       t.Bool(1, 4),
	}
	m.Encoding = make([]string, 256)
	for i := range m.Encoding {
		m.Encoding[i] = ".notdef"
	}
	n := 1 + t.Small(maxGlyphs)
	var names []string
	if t.Bool(2, 3) {
		names = append(names, ".notdef")
	}
	for i := 0; i < n; i++ {
		names = append(names, afmName(t, i))
	}
	for _, nm := range names {
		llx, lly := float64(t.Range(-100, 300)), float64(t.Range(-300, 300))
		g := &afm.GlyphInfo{WidthX: float64(t.Range(0, 1200))}
		if !t.Bool(1, 6) {
			g.BBox = rect.Rect{LLx: llx, LLy: lly, URx: llx + float64(t.Range(0, 900)), URy: lly + float64(t.Range(0, 900))}
		}
		m.Glyphs[nm] = g
	}
	// ligatures: several per glyph
	for _, nm := range names {
		if t.Bool(1, 3) {
			g := m.Glyphs[nm]
			k := 1 + t.Small(5)
			g.Ligatures = map[string]string{}
			for j := 0; j < k; j++ {
				succ, lig := sim.Pick(t, names), sim.Pick(t, names)
				// metrics of subset fonts name successors / ligatures that are
				// not glyphs of this font
				if t.Bool(1, 3) {
					succ = []string{"ff", "ffl", "zz", "Q", "q.alt"}[t.Choose(5)]
				}
				if t.Bool(1, 4) {
					lig = []string{"f_f", "X_Y", "lig1"}[t.Choose(3)]
				}
				g.Ligatures[succ] = lig
			}
		}
	}
	used := map[int]bool{}
	for _, nm := range names {
		if nm != ".notdef" && t.Bool(2, 3) {
			c := t.Choose(256)
			if !used[c] {
				used[c] = true
				m.Encoding[c] = nm
			}
		}
	}
	for i := t.Small(12); i > 0; i-- {
		m.Kern = append(m.Kern, &afm.KernPair{Left: sim.Pick(t, names), Right: sim.Pick(t, names), Adjust: funit.Int16(t.Range(-200, 200))})
	}
	if len(m.Kern) >= 2 && t.Choose(4) == 0 {
		// the same pair listed twice (with the same or another adjustment)
		for i := 1 + t.Choose(2); i > 0; i-- {
			k := *m.Kern[t.Choose(len(m.Kern))]
			if t.Bool(1, 2) {
				k.Adjust = funit.Int16(t.Range(-200, 200))
			}
			m.Kern = append(m.Kern, &k)
		}
	}
	return m
}

// AFMRelayout renders metrics through a harness-side layout: different
// spacing, CRLF line ends and field order.
func AFMRelayout(t *sim.Tape, m *afm.Metrics) []byte {
	var sb strings.Builder
	base := []string{"\n", "\r\n"}[t.Choose(2)]
	odd := t.Choose(5) == 0
	// the file's line ending; in one file in five a line in ten ends differently
	// (a bare CR, as classic Mac OS wrote it, is not a line end for the reader:
	// it must be not-a-line-end under every delivery)
	nlf := func() string {
		if odd && t.Choose(10) == 0 {
			return []string{"\r", "\n\r", "\r\r\n", "\n", "\r\n"}[t.Choose(5)]
		}
		return base
	}
	sp := func() string { return []string{" ", "  ", "\t", " \t "}[t.Choose(4)] }
	fmt.Fprintf(&sb, "StartFontMetrics%s4.1%s", sp(), nlf())
	fmt.Fprintf(&sb, "Comment generated%s", nlf())
	if t.Choose(25) == 0 {
		// a line longer than a line scanner's default limit (64 KiB)
		fmt.Fprintf(&sb, "Comment %s%s", strings.Repeat("long ", 13200+t.Choose(200)), nlf())
	}
	hdr := []string{
		fmt.Sprintf("FontName%s%s", sp(), m.FontName),
		fmt.Sprintf("FullName%s%s", sp(), m.FullName),
		fmt.Sprintf("CapHeight%s%.0f", sp(), m.CapHeight),
		fmt.Sprintf("XHeight%s%.0f", sp(), m.XHeight),
		fmt.Sprintf("Ascender%s%.0f", sp(), m.Ascent),
		fmt.Sprintf("Descender%s%.0f", sp(), m.Descent),
		fmt.Sprintf("UnderlinePosition%s%.0f", sp(), m.UnderlinePosition),
		fmt.Sprintf("UnderlineThickness%s%.0f", sp(), m.UnderlineThickness),
		fmt.Sprintf("ItalicAngle%s%g", sp(), m.ItalicAngle),
		fmt.Sprintf("IsFixedPitch%s%t", sp(), m.IsFixedPitch),
	}
	// rotate the header order
	r := t.Choose(len(hdr))
	for i := range hdr {
		sb.WriteString(hdr[(i+r)%len(hdr)] + nlf())
	}
	names := m.GlyphList()
	fmt.Fprintf(&sb, "StartCharMetrics%s%d%s", sp(), len(names), nlf())
	for _, nm := range names {
		g := m.Glyphs[nm]
		if g == nil {
			continue
		}
		code := -1
		for i, e := range m.Encoding {
			if e == nm {
				code = i
				break
			}
		}
		fmt.Fprintf(&sb, "C%s%d%s;%sWX%s%.0f%s;%sN%s%s%s;%sB%s%.0f %.0f %.0f %.0f%s;", sp(), code, sp(), sp(), sp(), g.WidthX, sp(), sp(), sp(), nm, sp(), sp(), sp(),
			g.BBox.LLx, g.BBox.LLy, g.BBox.URx, g.BBox.URy, sp())
		lk := make([]string, 0, len(g.Ligatures))
		for k := range g.Ligatures {
			lk = append(lk, k)
		}
		sortStrings(lk)
		for _, k := range lk {
			fmt.Fprintf(&sb, " L %s %s ;", k, g.Ligatures[k])
		}
		sb.WriteString(nlf())
	}
	// further glyphs that claim a code another glyph has already (the later line
	// wins in the reader, always)
	for i := t.Small(3); i > 0 && len(names) > 0; i-- {
		other := m.Glyphs[names[t.Choose(len(names))]]
		code := t.Choose(256)
		for c, e := range m.Encoding {
			if other != nil && e != ".notdef" && t.Bool(1, 2) {
				code = c
				break
			}
		}
		fmt.Fprintf(&sb, "C %d ; WX %d ; N Dup%d ; B 0 0 %d %d ;%s", code, 100+i, i, 10*i, 20*i, nlf())
	}
	fmt.Fprintf(&sb, "EndCharMetrics%s", nlf())
	if len(m.Kern) > 0 {
		fmt.Fprintf(&sb, "StartKernData%sStartKernPairs %d%s", nlf(), len(m.Kern), nlf())
		for _, k := range m.Kern {
			fmt.Fprintf(&sb, "KPX%s%s%s%s%s%d%s", sp(), k.Left, sp(), k.Right, sp(), k.Adjust, nlf())
		}
		fmt.Fprintf(&sb, "EndKernPairs%sEndKernData%s", nlf(), nlf())
	}
	fmt.Fprintf(&sb, "EndFontMetrics%s", nlf())
	return []byte(sb.String())
}

func sortStrings(a []string) {
	for i := 1; i < len(a); i++ {
		for j := i; j > 0 && a[j] < a[j-1]; j-- {
			a[j], a[j-1] = a[j-1], a[j]
		}
	}
}

// GenCMapMisuse draws a CMap-like file that drives the CIDInit operators with
// operands of the wrong type or shape (including composite objects that hold
// pointers): the reader must reject them with an error whose text, too, is the
// same on every run.
func GenCMapMisuse(t *sim.Tape) []byte {
	var sb strings.Builder
	sb.WriteString("/CIDInit /ProcSet findresource begin\n12 dict begin\nbegincmap\n/CMapName /Odd def\n1 begincodespacerange <00> <ff> endcodespacerange\n")
	if t.Bool(1, 2) {
		sb.WriteString("endcmap\nbegincmap\n") // a finished block: currentdict now has a CodeMap
	}
	operands := []string{"<01>", "5", "(str)", "/name", "1.5", "true", "[ 1 2 ]", "[ currentdict ]", "[ currentdict /CodeMap known { currentdict /CodeMap get } if ]",
		"currentdict", "{ 1 }", "mark", "currentfile", "<0102>", "[ [ <00> ] ]", "<< /a [ currentdict ] >>"}
	ops := []struct {
		name string
		n    int
	}{{"cidchar", 2}, {"cidrange", 3}, {"bfchar", 2}, {"bfrange", 3}, {"notdefchar", 2}, {"notdefrange", 3}, {"codespacerange", 2}}
	for i := 1 + t.Choose(3); i > 0; i-- {
		op := ops[t.Choose(len(ops))]
		cnt := 1 + t.Choose(2)
		if t.Bool(1, 8) {
			cnt = []int{0, 101, -1}[t.Choose(3)]
		}
		fmt.Fprintf(&sb, "%d begin%s\n", cnt, op.name)
		for j := 0; j < max(cnt, 0)*op.n && j < 8; j++ {
			if t.Bool(1, 3) {
				sb.WriteString(operands[t.Choose(len(operands))] + " ")
			} else {
				sb.WriteString([]string{"<01>", "<05>", "7", "<0041>"}[t.Choose(4)] + " ")
			}
		}
		fmt.Fprintf(&sb, "\nend%s\n", op.name)
	}
	if t.Bool(1, 2) {
		sb.WriteString("[ currentdict ] usecmap\n")
	}
	sb.WriteString("endcmap\nCMapName currentdict /CMap defineresource pop\nend\nend\n")
	return []byte(sb.String())
}
