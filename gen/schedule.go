package gen

import "verif/sim"

var fixedKs = []int{1, 2, 3, 4, 5, 6, 7, 8, 9, 255, 256, 257, 511, 512, 513, 4095, 4096, 4097}

// GenSchedule draws a delivery schedule for an input of n bytes.  The simple
// choice (all zero draws) is all-at-once, non-seekable... seekable is decided
// by the caller through allowSeek.
func GenSchedule(t *sim.Tape, n int, allowSeek bool) sim.Schedule {
	var s sim.Schedule
	switch t.Weighted(2, 3, 3, 3, 1, 4, 2) {
	case 0:
		s.Mode = sim.ChunkAll
	case 1:
		s.Mode = sim.ChunkFixed
		s.K = 1
	case 2:
		s.Mode = sim.ChunkFixed
		s.K = sim.Pick(t, fixedKs)
	case 3:
		s.Mode = sim.ChunkRandom
		s.K = []int{2, 3, 5, 17, 600, 5000}[t.Choose(6)]
	case 4:
		s.Mode = sim.ChunkAlt
	case 5:
		s.Mode = sim.ChunkSplit
		s.K = t.Range(0, n)
	case 6:
		s.Mode = sim.ChunkList
		k := 1 + t.Choose(4)
		for i := 0; i < k; i++ {
			s.Cuts = append(s.Cuts, t.Range(0, n))
		}
		sortInts(s.Cuts)
	}
	s.EOFWithData = t.Bool(1, 3)
	if allowSeek {
		s.Seekable = t.Bool(1, 2)
	}
	return s
}

func sortInts(a []int) {
	for i := 1; i < len(a); i++ {
		for j := i; j > 0 && a[j] < a[j-1]; j-- {
			a[j], a[j-1] = a[j-1], a[j]
		}
	}
}

// RefSchedule is the reference delivery: everything in one Read, seekable.
func RefSchedule() sim.Schedule {
	return sim.Schedule{Mode: sim.ChunkAll, Seekable: true}
}

// GenBufSizes returns a function yielding the caller-side buffer size of each
// successive Read call (for consumers that the harness itself drives, such as
// pfb.Decode).
func GenBufSizes(t *sim.Tape) (next func() int, desc string) {
	switch t.Weighted(3, 3, 2, 2, 2, 1) {
	case 0:
		k := 1 + t.Choose(17)
		return func() int { return k }, "fixed"
	case 1:
		return func() int { return 1 + t.Choose(17) }, "random1-17"
	case 2:
		ks := []int{1, 2, 3, 5, 7, 8, 9, 31, 32, 33, 4096}
		k := sim.Pick(t, ks)
		return func() int { return k }, "fixed-list"
	case 3:
		i := 0
		a, b := 1+t.Choose(9), 1+t.Choose(9)
		return func() int {
			i++
			if i%2 == 1 {
				return a
			}
			return b
		}, "alternating"
	case 4:
		return func() int {
			switch t.Choose(8) {
			case 0:
				return 0
			case 1:
				return 1 + t.Choose(4096)
			default:
				return 1 + t.Choose(9)
			}
		}, "random-with-zero"
	default:
		k := []int{1 << 16, 1<<16 + 1, 1 << 17, 300_000, 1 << 20}[t.Choose(5)]
		return func() int { return k }, "huge"
	}
}
