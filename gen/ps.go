package gen

import (
	"fmt"
	"strconv"
	"strings"

	"verif/sim"
)

// PSOpts selects the sub-grammar of generated PostScript programs.
type PSOpts struct {
	MaxTokens int
	// Files allows operators that read from / close the current file
	// (currentfile, readstring, closefile) and eexec tails.
	Files bool
	// Stop allows stop and top-level exit.
	Stop bool
	// ForallDict allows forall over dictionaries (order is unspecified).
	ForallDict bool
	// Errors is the per-mille rate of deliberately ill-typed operators.
	Errors int
	// Hostile adds operators that try to reach shared state (systemdict,
	// errordict, StandardEncoding, CIDInit, resources).
	Hostile bool
	// DSC allows %%Key: value lines.
	DSC bool
	// Loops allows unbounded `loop` bodies that never exit (only meaningful
	// with an operation budget).
	Runaway bool
	// MaxAlloc bounds n in `n array|string|dict`.
	MaxAlloc int
	// PlainLex restricts separators to single spaces/newlines (fast, used
	// where lexical variety is irrelevant).
	PlainLex bool
}

type kind byte

const (
	kI kind = iota // integer
	kR             // real
	kB             // boolean
	kS             // string
	kN             // literal name
	kA             // array
	kP             // procedure
	kD             // dictionary
	kM             // mark
	kF             // file (currentfile)
	kX             // unknown
)

// tok is one rendered token.
type tok struct {
	text       string
	delimStart bool // starts with a delimiter: no separator needed before it
	delimEnd   bool // ends with a delimiter: no separator needed after it
}

// PSProg is a generated program.
type PSProg struct {
	Src []byte
	// Gaps lists byte offsets inside white-space separators between top-level
	// tokens (a top-level token here may also lie inside an open procedure
	// body) where the program can be cut into consecutive Execute calls.
	Gaps []int
	// HasFiles reports use of currentfile-reading operators or eexec;
	// HasStop use of stop/exit at top level.
	HasFiles, HasStop, HasEexec, HasDSC, HasLoop, HasProcCall, HasForallDict bool
	NTokens                                                                  int
}

type psGen struct {
	t    *sim.Tape
	o    PSOpts
	toks []tok
	st   []kind // abstract operand stack
	// user definitions
	vars   []userVar
	nvar   int
	depth  int // procedure nesting depth while generating a body
	dicts  int // abstract dict-stack depth above userdict
	budget int
	p      *PSProg
	// positions (token indices) after which a top-level gap may be recorded
	topGaps []int
}

type userVar struct {
	name string
	k    kind   // kind of value; kP => callable procedure
	push []kind // for procedures: what a call leaves on the stack
	need int    // for procedures: operands consumed (always 0 here)
}

func (g *psGen) emit(text string) { g.toks = append(g.toks, tok{text: text}) }
func (g *psGen) emitD(text string, ds, de bool) {
	g.toks = append(g.toks, tok{text: text, delimStart: ds, delimEnd: de})
}

func (g *psGen) push(k kind) { g.st = append(g.st, k) }
func (g *psGen) pop() kind {
	if len(g.st) == 0 {
		return kX
	}
	k := g.st[len(g.st)-1]
	g.st = g.st[:len(g.st)-1]
	return k
}
func (g *psGen) top(i int) kind { // i=0 is the top
	if i >= len(g.st) {
		return kX
	}
	return g.st[len(g.st)-1-i]
}
func (g *psGen) has(ks ...kind) bool { // ks[len-1] is the top
	if len(g.st) < len(ks) {
		return false
	}
	for i, k := range ks {
		got := g.st[len(g.st)-len(ks)+i]
		if k != kX && got != k {
			return false
		}
	}
	return true
}
func isNum(k kind) bool { return k == kI || k == kR }

// ---------------------------------------------------------------- literals

func (g *psGen) intText(v int) string {
	t := g.t
	if g.o.PlainLex {
		return strconv.Itoa(v)
	}
	switch t.Weighted(10, 2, 2, 1) {
	case 1:
		if v >= 0 {
			return "+" + strconv.Itoa(v)
		}
	case 2:
		base := []int{2, 8, 16, 36, 10}[t.Choose(5)]
		if v >= 0 {
			s := strconv.FormatInt(int64(v), base)
			if t.Bool(1, 2) {
				s = strings.ToUpper(s)
			}
			return fmt.Sprintf("%d#%s", base, s)
		}
	case 3:
		if v >= 0 && v < 1000 {
			return "0" + strconv.Itoa(v) // leading zero
		}
	}
	return strconv.Itoa(v)
}

func (g *psGen) smallInt() int {
	t := g.t
	switch t.Weighted(8, 3, 1, 1) {
	case 0:
		return t.Choose(6)
	case 1:
		return t.Range(-3, 40)
	case 2:
		return []int{255, 256, 65535, 65536, 1 << 31, -(1 << 31), 1<<31 - 1}[t.Choose(7)]
	default:
		return []int{1<<62 - 1 + 1<<62, -(1 << 62) - (1 << 62), 1 << 53, 1<<53 + 1}[t.Choose(4)]
	}
}

func (g *psGen) litInt() {
	g.emit(g.intText(g.smallInt()))
	g.push(kI)
}

func (g *psGen) litReal() {
	t := g.t
	forms := []string{"1.5", ".5", "-0.25", "2.", "1e3", "1E-2", "-3.25e2", "0.0", "+7.75", "123456789.125", "1e30", "-.0"}
	g.emit(sim.Pick(t, forms))
	g.push(kR)
}

func (g *psGen) strBytes() []byte {
	t := g.t
	n := t.Small(40)
	b := make([]byte, n)
	mode := t.Choose(4)
	for i := range b {
		switch mode {
		case 0:
			b[i] = byte('a' + t.Choose(26))
		case 1:
			b[i] = byte(t.Choose(256))
		case 2:
			b[i] = []byte("()\\\r\n\t %/<>[]{}~\x00\x0c")[t.Choose(18)]
		default:
			b[i] = byte(32 + t.Choose(95))
		}
	}
	return b
}

// litStringText renders b in one of the three string syntaxes.
func (g *psGen) litStringText(b []byte) string {
	t := g.t
	if g.o.PlainLex {
		return "<" + fmt.Sprintf("%x", b) + ">"
	}
	switch t.Weighted(5, 3, 2) {
	case 1: // hex
		var sb strings.Builder
		sb.WriteByte('<')
		for i, c := range b {
			if t.Bool(1, 8) {
				sb.WriteString([]string{" ", "\n", "\t", "\r\n", "\x00", "\x0b", "\x0c", "\x1a", "\x1f", "\x08", "\x01"}[t.Choose(11)])
			}
			h := fmt.Sprintf("%02x", c)
			if t.Bool(1, 3) {
				h = strings.ToUpper(h)
			}
			if i == len(b)-1 && c&15 == 0 && t.Bool(1, 2) {
				h = h[:1] // odd number of digits: final 0 implied
			}
			sb.WriteString(h)
		}
		sb.WriteByte('>')
		return sb.String()
	case 2: // ASCII85
		var sb strings.Builder
		sb.WriteString("<~")
		for i := 0; i < len(b); i += 4 {
			var chunk [4]byte
			n := copy(chunk[:], b[i:])
			v := uint32(chunk[0])<<24 | uint32(chunk[1])<<16 | uint32(chunk[2])<<8 | uint32(chunk[3])
			if n == 4 && v == 0 && t.Bool(1, 2) {
				sb.WriteByte('z')
				continue
			}
			var d [5]byte
			for j := 4; j >= 0; j-- {
				d[j] = byte('!' + v%85)
				v /= 85
			}
			sb.Write(d[:n+1])
			if t.Bool(1, 6) {
				sb.WriteString([]string{" ", "\n"}[t.Choose(2)])
			}
		}
		sb.WriteString("~>")
		return sb.String()
	}
	// literal string
	var sb strings.Builder
	sb.WriteByte('(')
	// balanced parentheses may stay unescaped: only do so when b is balanced
	rawParens := balanced(b) && t.Bool(1, 2) // all-or-nothing: mixing would unbalance the raw nesting
	for i, c := range b {
		switch {
		case c == '(' || c == ')':
			if rawParens {
				sb.WriteByte(c)
			} else {
				sb.WriteByte('\\')
				sb.WriteByte(c)
			}
		case c == '\\':
			sb.WriteString("\\\\")
		case c == '\r':
			// a raw CR (or CR LF) inside a string is legal and reads as one
			// newline; whether the pair is seen as one depends on look-ahead
			switch t.Choose(3) {
			case 0:
				sb.WriteString("\\r")
			case 1:
				sb.WriteString("\r")
			default:
				sb.WriteString("\r\n")
			}
		case c == '\n':
			if t.Bool(1, 2) {
				sb.WriteString("\\n")
			} else {
				sb.WriteByte('\n')
			}
		case c == '\t' && t.Bool(1, 2):
			sb.WriteString("\\t")
		case c == '\b':
			sb.WriteString("\\b")
		case c == '\f' && t.Bool(1, 2):
			sb.WriteString("\\f")
		case c < 32 || c > 126 || t.Bool(1, 12):
			// octal escape; use 3 digits when a digit follows
			if i+1 < len(b) && b[i+1] >= '0' && b[i+1] <= '9' || t.Bool(1, 2) {
				fmt.Fprintf(&sb, "\\%03o", c)
			} else {
				fmt.Fprintf(&sb, "\\%o", c)
			}
		default:
			sb.WriteByte(c)
		}
		if t.Bool(1, 16) {
			// line continuation (the generator need not know the resulting
			// value: no oracle here depends on it)
			sb.WriteString([]string{"\\\n", "\\\r\n", "\\\r"}[t.Choose(3)])
		}
	}
	sb.WriteByte(')')
	return sb.String()
}

func balanced(b []byte) bool {
	lvl := 0
	for _, c := range b {
		if c == '(' {
			lvl++
		} else if c == ')' {
			lvl--
			if lvl < 0 {
				return false
			}
		}
	}
	return lvl == 0
}

func (g *psGen) litString() {
	s := g.litStringText(g.strBytes())
	g.emitD(s, true, true)
	g.push(kS)
}

var nameAlphabet = "abcdefghijklmnopqrstuvwxyzABCXYZ0123456789_-.$@!?*+=|^&'\"`,;:#"

func (g *psGen) nameText() string {
	t := g.t
	if t.Bool(3, 4) || len(g.vars) == 0 {
		n := 1 + t.Small(8)
		b := make([]byte, n)
		for i := range b {
			if i == 0 || t.Bool(3, 4) {
				b[i] = byte('a' + t.Choose(26))
			} else {
				b[i] = nameAlphabet[t.Choose(len(nameAlphabet))]
			}
		}
		return string(b)
	}
	return sim.Pick(t, g.vars).name
}

func (g *psGen) litName() {
	g.emitD("/"+g.nameText(), true, false)
	g.push(kN)
}

func (g *psGen) litBool() {
	g.emit([]string{"true", "false"}[g.t.Choose(2)])
	g.push(kB)
}

// simple literal of a drawn scalar kind
func (g *psGen) litScalar() {
	switch g.t.Weighted(6, 2, 3, 2, 1) {
	case 0:
		g.litInt()
	case 1:
		g.litReal()
	case 2:
		g.litString()
	case 3:
		g.litName()
	default:
		g.litBool()
	}
}

func (g *psGen) litArray() {
	n := g.t.Small(5)
	g.emitD("[", true, true)
	save := len(g.st)
	g.push(kM)
	for i := 0; i < n; i++ {
		g.litScalar()
	}
	g.emitD("]", true, true)
	g.st = g.st[:save]
	g.push(kA)
}

func (g *psGen) litDict() {
	n := g.t.Small(4)
	g.emitD("<<", true, true)
	save := len(g.st)
	for i := 0; i < n; i++ {
		g.litName()
		g.litScalar()
	}
	g.emitD(">>", true, true)
	g.st = g.st[:save]
	g.push(kD)
}

// body generates a procedure body `{ ... }` that starts from an abstract stack
// holding `in` and returns what it leaves behind (beyond consuming `in`).
func (g *psGen) body(in []kind, maxToks int, endWith string) []kind {
	g.emitD("{", true, true)
	saveSt := g.st
	saveDicts := g.dicts
	g.st = append([]kind{}, in...)
	g.depth++
	n := g.t.Small(maxToks)
	for i := 0; i < n && g.budget > 0; i++ {
		g.step()
	}
	// keep the body roughly stack-neutral: pop what is left beyond 1 item
	for len(g.st) > 1 && g.budget > -50 {
		g.emit("pop")
		g.pop()
		g.budget--
	}
	// close dictionaries opened inside the body
	for g.dicts > saveDicts {
		g.emit("end")
		g.dicts--
	}
	if endWith != "" {
		g.emit(endWith)
	}
	g.depth--
	left := g.st
	g.emitD("}", true, true)
	g.st = saveSt
	g.dicts = saveDicts
	return left
}

func (g *psGen) litProc() {
	g.body(nil, 6, "")
	g.push(kP)
}

// ---------------------------------------------------------------- steps

func (g *psGen) pushAny() {
	switch g.t.Weighted(10, 3, 4, 3, 2, 3, 2, 2) {
	case 0:
		g.litInt()
	case 1:
		g.litReal()
	case 2:
		g.litString()
	case 3:
		g.litName()
	case 4:
		g.litBool()
	case 5:
		g.litArray()
	case 6:
		if g.depth < 3 {
			g.litProc()
		} else {
			g.litInt()
		}
	default:
		g.litDict()
	}
}

func (g *psGen) op(name string) { g.emit(name) }

// step emits one "statement": a literal push or an operator whose
// preconditions the abstract stack satisfies.
func (g *psGen) step() {
	t := g.t
	g.budget--
	if g.o.Errors > 0 && t.Choose(1000) < g.o.Errors {
		g.randomOp()
		return
	}
	if len(g.st) > 12 {
		g.op("pop")
		g.pop()
		return
	}
	// collect applicable actions
	type act struct {
		w int
		f func()
	}
	var acts []act
	add := func(w int, f func()) { acts = append(acts, act{w, f}) }

	add(10, g.pushAny)
	n := len(g.st)
	if n >= 1 {
		add(3, func() { g.op("pop"); g.pop() })
		add(3, func() { k := g.top(0); g.op("dup"); g.push(k) })
		add(1, func() { g.op("type"); g.pop(); g.push(kN) })
		add(1, func() { g.op("count"); g.push(kI) })
	}
	if n >= 2 {
		add(3, func() { a, b := g.pop(), g.pop(); g.op("exch"); g.push(a); g.push(b) })
		add(2, func() { g.pop(); g.pop(); g.op([]string{"eq", "ne"}[t.Choose(2)]); g.push(kB) })
		add(2, func() {
			i := t.Choose(min(n, 4))
			k := g.top(i)
			g.emit(strconv.Itoa(i))
			g.op("index")
			g.push(k)
		})
		add(2, func() {
			m := 2 + t.Choose(min(n-1, 3))
			j := t.Range(-2, 3)
			g.emit(strconv.Itoa(m))
			g.emit(strconv.Itoa(j))
			g.op("roll")
			// rotate the abstract stack likewise
			seg := g.st[len(g.st)-m:]
			r := make([]kind, m)
			for i := range seg {
				r[((i+j)%m+m)%m] = seg[i]
			}
			copy(seg, r)
		})
		add(1, func() {
			m := 1 + t.Choose(min(n, 3))
			g.emit(strconv.Itoa(m))
			g.op("copy")
			g.st = append(g.st, g.st[len(g.st)-m:]...)
		})
	}
	if n >= 2 && isNum(g.top(0)) && isNum(g.top(1)) {
		add(6, func() {
			a, b := g.pop(), g.pop()
			g.op([]string{"add", "sub", "mul"}[t.Choose(3)])
			if a == kI && b == kI {
				g.push(kI) // may overflow into a real: tracked loosely
			} else {
				g.push(kR)
			}
		})
	}
	if n >= 1 && isNum(g.top(0)) {
		add(1, func() { g.op("abs") })
	}
	if g.has(kB, kB) || g.has(kI, kI) {
		add(2, func() { k := g.pop(); g.pop(); g.op([]string{"and", "or"}[t.Choose(2)]); g.push(k) })
	}
	if g.has(kB) || g.has(kI) {
		add(1, func() { g.op("not") })
	}
	// allocation
	add(2, func() {
		m := g.o.MaxAlloc
		if m <= 0 {
			m = 20
		}
		size := t.Small(m)
		if m >= 30 && t.Choose(12) == 0 {
			// now and then a large object (a thousand elements and more)
			size = 1000 + t.Choose(4000)
		}
		g.emit(strconv.Itoa(size))
		k := t.Choose(3)
		g.op([]string{"array", "string", "dict"}[k])
		g.push([]kind{kA, kS, kD}[k])
	})
	if n >= 1 {
		switch g.top(0) {
		case kA, kS, kD, kN, kP:
			add(2, func() { g.pop(); g.op("length"); g.push(kI) })
		}
		if g.top(0) == kD {
			add(1, func() { g.pop(); g.op("maxlength"); g.push(kI) })
			if g.dicts < 10 {
				add(2, func() { g.pop(); g.op("begin"); g.dicts++ })
			}
		}
		if g.top(0) == kA {
			add(1, func() { g.pop(); g.op("cvx"); g.push(kP) })
			add(2, func() { // 0 get on a possibly empty array: may error
				g.emit("0")
				g.op("get")
				g.pop()
				g.push(kX)
			})
			add(2, func() { // dup 0 <val> put
				g.op("dup")
				g.emit("0")
				g.push(kA)
				g.push(kI)
				g.litScalar()
				g.op("put")
				g.pop()
				g.pop()
				g.pop()
			})
			add(1, func() {
				g.emit("0")
				g.emit(strconv.Itoa(t.Choose(3)))
				g.op("getinterval")
			})
		}
		if g.top(0) == kS {
			add(2, func() { g.emit("0"); g.op("get"); g.pop(); g.push(kI) })
			add(2, func() {
				g.op("dup")
				g.emit(strconv.Itoa(t.Choose(3)))
				g.emit(strconv.Itoa(t.Choose(256)))
				g.op("put")
			})
			add(1, func() {
				g.emit(strconv.Itoa(t.Choose(2)))
				g.emit(strconv.Itoa(t.Choose(3)))
				g.op("getinterval")
			})
		}
		if g.top(0) == kP && g.depth < 3 {
			add(3, func() { g.pop(); g.op("exec"); g.push(kX); g.p.HasProcCall = true })
			add(1, func() { g.op("bind") })
			add(1, func() { g.op([]string{"executeonly", "readonly", "noaccess"}[t.Choose(3)]) })
		}
	}
	if g.has(kA, kA) || g.has(kS, kS) {
		add(1, func() { // a b -> a 0 b putinterval (may rangecheck)
			g.emit("0")
			g.op("exch")
			g.op("putinterval")
			g.pop()
			g.pop()
		})
		add(1, func() { g.op("copy"); g.pop() })
	}
	if g.has(kD, kN) {
		add(2, func() { g.pop(); g.pop(); g.op("known"); g.push(kB) })
	}
	if g.has(kN, kX) && g.top(0) != kM {
		add(6, func() { // def: remember the variable
			v := g.pop()
			g.pop()
			g.op("def")
			_ = v
		})
	}
	// definitions with a fresh name: `/vN <value> def`
	add(4, g.defVar)
	if len(g.vars) > 0 {
		// an alias: a name bound to an executable name object
		add(1, func() {
			v := sim.Pick(t, g.vars)
			name := fmt.Sprintf("al%d", g.nvar)
			g.nvar++
			g.emitD("/"+name, true, false)
			g.emitD("{", true, true)
			g.emit(v.name)
			g.emitD("}", true, true)
			g.emit("0")
			g.op("get")
			g.op("def")
			g.vars = append(g.vars, userVar{name: name, k: v.k, push: v.push})
		})
	}
	if len(g.vars) > 0 {
		// a name given a new value without def or put: by copying a dictionary
		// that holds it into the current one
		add(1, func() {
			i := t.Choose(len(g.vars))
			if g.vars[i].k == kP {
				return
			}
			g.op("<<")
			g.emitD("/"+g.vars[i].name, true, false)
			g.emit(strconv.Itoa(100 + t.Choose(900)))
			g.op(">>")
			g.op("currentdict")
			g.op("copy")
			g.op("pop")
			g.vars[i].k = kI
		})
		add(5, g.useVar)
		add(1, func() {
			v := sim.Pick(t, g.vars)
			g.emitD("/"+v.name, true, false)
			g.op([]string{"load", "where"}[t.Choose(2)])
			g.push(kX)
		})
	}
	if g.dicts > 0 {
		add(2, func() { g.op("end"); g.dicts-- })
	}
	add(1, func() { g.op("currentdict"); g.push(kD) })
	add(1, func() {
		g.op([]string{"userdict", "systemdict", "errordict", "FontDirectory", "StandardEncoding"}[t.Choose(5)])
		g.push(kX)
	})
	add(1, func() { g.op("mark"); g.push(kM) })
	add(1, func() { g.op("matrix"); g.push(kA) })
	// an operator object (not a name, not a procedure) handed to exec
	add(1, func() {
		k := t.Choose(3)
		if t.Bool(1, 2) {
			g.emit("/" + []string{"count", "currentdict", "mark"}[k])
			g.op("load")
		} else {
			g.op("systemdict")
			g.emit("/" + []string{"count", "currentdict", "mark"}[k])
			g.op("get")
		}
		g.op("exec")
		g.push([]kind{kI, kD, kM}[k])
	})
	// mark ... cleartomark
	add(1, func() {
		g.op("mark")
		save := len(g.st)
		for i := t.Small(3); i > 0; i-- {
			g.litScalar()
		}
		g.op("cleartomark")
		g.st = g.st[:save]
	})
	// control flow
	if g.depth < 3 && g.budget > 4 {
		add(3, g.ctlIf)
		add(3, g.ctlRepeat)
		add(3, g.ctlFor)
		add(2, g.ctlForall)
		add(2, g.ctlLoop)
		add(2, g.defProc)
		if g.o.Errors > 0 {
			// standard operators this interpreter does not define (today): a
			// procedure handed to `stopped`, or one of the others on plausible
			// operands.  On the unchanged library they end the program with an
			// undefined error; that, too, must happen at the same tick for every
			// budget
			add(1, func() {
				if t.Bool(1, 2) {
					g.neutralBody(6)
					g.op("stopped")
					g.push(kB)
					return
				}
				g.litInt()
				g.litInt()
				g.op([]string{"idiv", "mod", "lt", "gt", "le", "ge", "div", "exch neg", "max", "min"}[t.Choose(10)])
				g.pop()
				g.pop()
				g.push(kX)
			})
		}
	}
	if g.o.Stop && g.depth > 0 && t.Bool(1, 20) {
		add(1, func() { g.op("exit"); g.p.HasStop = true })
	}
	if g.o.Stop && t.Bool(1, 40) {
		add(1, func() { g.op("stop"); g.p.HasStop = true })
	}
	if g.o.Files {
		add(1, g.fileOps)
	}
	if g.o.Hostile {
		add(6, g.hostile)
	}
	// fonts and resources
	add(1, g.resourceOps)

	tot := 0
	for _, a := range acts {
		tot += a.w
	}
	v := t.Choose(tot)
	for _, a := range acts {
		if v < a.w {
			a.f()
			return
		}
		v -= a.w
	}
}

var allOps = []string{"[", "]", "<<", ">>", "abs", "add", "and", "array", "begin", "bind", "cleartomark", "copy", "count",
	"currentdict", "cvx", "def", "definefont", "defineresource", "dict", "dup", "exec", "end", "eq", "exch",
	"executeonly", "findfont", "findresource", "for", "forall", "get", "getinterval", "if", "ifelse", "index",
	"internaldict", "known", "length", "load", "mark", "matrix", "maxlength", "mul", "ne", "noaccess", "not", "or", "pop",
	"put", "putinterval", "readonly", "repeat", "roll", "string", "sub", "type", "where", "undefinedname", "}"}

func (g *psGen) randomOp() {
	name := sim.Pick(g.t, allOps)
	if name == "}" && g.depth > 0 {
		name = "pop"
	}
	if name == "forall" && !g.o.ForallDict {
		// a random forall could meet a dictionary and an order-sensitive body;
		// PostScript leaves that order open, so no oracle may depend on it
		name = "pop"
	}
	switch name {
	case "[", "]", "<<", ">>", "}":
		g.emitD(name, true, true)
	default:
		g.emit(name)
	}
	// abstract stack is now unreliable: forget it
	g.st = g.st[:0]
}

func (g *psGen) defVar() {
	name := fmt.Sprintf("v%d", g.nvar)
	g.nvar++
	g.emitD("/"+name, true, false)
	save := len(g.st)
	g.pushAny()
	k := g.top(0)
	g.st = g.st[:save]
	g.op("def")
	if k == kP {
		g.vars = append(g.vars, userVar{name: name, k: kP})
	} else {
		g.vars = append(g.vars, userVar{name: name, k: k})
	}
}

func (g *psGen) defProc() {
	name := fmt.Sprintf("p%d", g.nvar)
	g.nvar++
	g.emitD("/"+name, true, false)
	left := g.body(nil, 8, "")
	if g.t.Bool(1, 3) {
		g.op("bind")
	}
	g.op("def")
	g.vars = append(g.vars, userVar{name: name, k: kP, push: left})
}

func (g *psGen) useVar() {
	v := sim.Pick(g.t, g.vars)
	g.emit(v.name)
	if v.k == kP {
		g.p.HasProcCall = true
		if v.push == nil {
			g.push(kX)
		}
		for _, k := range v.push {
			g.push(k)
		}
	} else {
		g.push(v.k)
	}
}

func (g *psGen) ctlIf() {
	g.litBool()
	g.pop()
	g.neutralBody(5)
	if g.t.Bool(1, 2) {
		g.op("if")
	} else {
		g.neutralBody(5)
		g.op("ifelse")
	}
}

// neutralBody emits a body that pops everything it pushed.
func (g *psGen) neutralBody(maxToks int) {
	g.emitD("{", true, true)
	saveSt := g.st
	saveDicts := g.dicts
	g.st = nil
	g.depth++
	for i := g.t.Small(maxToks); i > 0 && g.budget > 0; i-- {
		g.step()
	}
	for len(g.st) > 0 {
		g.emit("pop")
		g.pop()
	}
	for g.dicts > saveDicts {
		g.emit("end")
		g.dicts--
	}
	g.depth--
	g.emitD("}", true, true)
	g.st = saveSt
	g.dicts = saveDicts
}

// maybeBind binds the procedure just emitted (bound one-operator bodies are a
// classic fast-path target).
func (g *psGen) maybeBind() {
	if g.t.Bool(1, 4) {
		g.op("bind")
	}
}

func (g *psGen) ctlRepeat() {
	n := g.t.Small(5)
	g.emit(strconv.Itoa(n))
	left := g.body(nil, 5, "")
	g.maybeBind()
	g.op("repeat")
	g.p.HasLoop = true
	for i := 0; i < n; i++ {
		for _, k := range left {
			g.push(k)
		}
	}
}

func (g *psGen) ctlFor() {
	t := g.t
	a, inc, lim := t.Range(-2, 3), []int{1, 2, -1, 3}[t.Choose(4)], t.Range(-3, 6)
	g.emit(strconv.Itoa(a))
	g.emit(strconv.Itoa(inc))
	g.emit(strconv.Itoa(lim))
	left := g.body([]kind{kI}, 5, "")
	g.maybeBind()
	g.op("for")
	g.p.HasLoop = true
	iters := 0
	for v := a; (inc > 0 && v <= lim) || (inc < 0 && v >= lim); v += inc {
		iters++
		if iters > 20 {
			break
		}
	}
	for i := 0; i < iters; i++ {
		for _, k := range left {
			g.push(k)
		}
	}
}

func (g *psGen) ctlForall() {
	t := g.t
	switch t.Weighted(3, 3, 1) {
	case 0:
		n := t.Small(4)
		g.emitD("[", true, true)
		for i := 0; i < n; i++ {
			save := len(g.st)
			g.litScalar()
			g.st = g.st[:save]
		}
		g.emitD("]", true, true)
		left := g.body([]kind{kX}, 4, "")
		g.maybeBind()
		g.op("forall")
		for i := 0; i < n; i++ {
			for _, k := range left {
				g.push(k)
			}
		}
	case 1:
		b := g.strBytes()
		if len(b) > 5 {
			b = b[:5]
		}
		g.emitD(g.litStringText(b), true, true)
		left := g.body([]kind{kI}, 4, "")
		g.maybeBind()
		g.op("forall")
		for range b {
			for _, k := range left {
				g.push(k)
			}
		}
	default:
		if !g.o.ForallDict {
			g.litInt()
			return
		}
		g.litDict()
		g.pop()
		// body pops key and value so that the final stack is order-free
		g.emitD("{", true, true)
		g.emit("pop")
		g.emit("pop")
		g.emitD("}", true, true)
		g.op("forall")
		g.p.HasForallDict = true
	}
	g.p.HasLoop = true
}

func (g *psGen) ctlLoop() {
	if g.o.Runaway && g.t.Bool(1, 6) {
		// never exits by itself: relies on the budget or a limit
		g.body(nil, 4, "")
		g.op("loop")
		g.p.HasLoop = true
		return
	}
	// counter-controlled loop: /cN k def { ... cN 0 eq {exit} if /cN cN 1 sub def } loop
	name := fmt.Sprintf("c%d", g.nvar)
	g.nvar++
	n := g.t.Small(4)
	g.emitD("/"+name, true, false)
	g.emit(strconv.Itoa(n))
	g.op("def")
	g.emitD("{", true, true)
	saveSt := g.st
	g.st = nil
	g.depth++
	for i := g.t.Small(3); i > 0; i-- {
		g.step()
	}
	for len(g.st) > 0 {
		g.emit("pop")
		g.pop()
	}
	g.depth--
	g.st = saveSt
	g.emit(name)
	g.emit("0")
	g.emit("eq")
	g.emitD("{", true, true)
	g.emit("exit")
	g.emitD("}", true, true)
	g.emit("if")
	g.emitD("/"+name, true, false)
	g.emit(name)
	g.emit("1")
	g.emit("sub")
	g.emit("def")
	g.emitD("}", true, true)
	g.op("loop")
	g.p.HasLoop = true
}

func (g *psGen) fileOps() {
	t := g.t
	g.p.HasFiles = true
	switch t.Weighted(3, 1, 1) {
	case 0:
		// n string currentfile exch readstring <sep>bytes... pop
		b := g.strBytes()
		g.emit(strconv.Itoa(len(b)))
		g.emit("string")
		g.emit("currentfile")
		g.emit("exch")
		g.emit("readstring")
		// readstring consumes exactly one separator byte, then the data
		g.toks = append(g.toks, tok{text: "\x01RAW" + string(b), delimStart: true}) // rendered verbatim after a single space
		g.emit("pop")
		g.push(kS)
	case 1:
		g.emit("currentfile")
		g.push(kF)
	default:
		g.emit("currentfile")
		g.emit("closefile")
	}
}

func (g *psGen) resourceOps() {
	t := g.t
	switch t.Choose(4) {
	case 0:
		// /Name << /FontType 1 >> definefont pop
		g.emitD("/F"+strconv.Itoa(t.Choose(3)), true, false)
		g.emitD("<<", true, true)
		g.emitD("/FontType", true, false)
		g.emit("1")
		g.emitD(">>", true, true)
		g.emit("definefont")
		g.push(kD)
	case 1:
		g.emitD("/F"+strconv.Itoa(t.Choose(3)), true, false)
		g.emit("findfont")
		g.push(kD)
	case 2:
		g.emitD("/R"+strconv.Itoa(t.Choose(3)), true, false)
		g.litScalar()
		g.pop()
		g.emitD("/"+[]string{"Font", "CIDFont", "ProcSet", "Nope"}[t.Choose(4)], true, false)
		g.emit("defineresource")
		g.push(kX)
	default:
		g.emitD("/"+[]string{"CIDInit", "R0", "R1", "F0"}[t.Choose(4)], true, false)
		g.emitD("/"+[]string{"ProcSet", "Font", "CIDFont", "CMap"}[t.Choose(4)], true, false)
		g.emit("findresource")
		g.push(kX)
	}
}

// hostile emits a snippet that tries to modify state a careless
// implementation might share between interpreter instances.
func (g *psGen) hostile() {
	t := g.t
	sysOps := []string{"add", "def", "dup", "pop", "begin", "end", "dict", "findresource", "defineresource", "definefont", "exch", "put", "get", "for", "if", "array", "string", "readstring", "eexec", "currentfile", "closefile", "true", "false", "StandardEncoding", "userdict", "errordict", "FontDirectory", "systemdict", "mark", "cleartomark", "index", "known", "executeonly", "readonly", "noaccess", "currentdict", "copy", "length", "cvx", "bind", "exec", "loop", "repeat", "roll", "sub", "mul", "eq", "ne", "not", "and", "or", "type", "where", "load", "matrix", "forall", "getinterval", "putinterval", "[", "]", "<<", ">>", "count", "abs", "findfont", "ifelse", "internaldict", "maxlength", "stop", "exit"}
	cidOps := []string{"begincmap", "endcmap", "usecmap", "begincodespacerange", "endcodespacerange", "begincidchar", "endcidchar", "begincidrange", "endcidrange", "beginbfchar", "endbfchar", "beginbfrange", "endbfrange", "beginnotdefchar", "endnotdefchar", "beginnotdefrange", "endnotdefrange"}
	errs := []string{"typecheck", "stackunderflow", "undefined", "rangecheck", "interrupt", "limitcheck", "syntaxerror", "invalidaccess", "dictstackunderflow", "unmatchedmark", "undefinedresource"}
	val := func() string {
		k := t.Choose(10)
		if k >= 8 {
			g.p.HasStop = true
		}
		return []string{"42", "{pop}", "{}", "(x)", "/zz", "true", "[1 2]", "{ 1 2 3 }", "{ stop }", "{ exit }"}[k]
	}
	w := func(s string) {
		for _, f := range strings.Fields(s) {
			switch {
			case strings.HasPrefix(f, "/") || strings.HasPrefix(f, "{") || strings.HasPrefix(f, "(") || strings.HasPrefix(f, "["):
				g.emitD(f, true, strings.HasSuffix(f, "}") || strings.HasSuffix(f, ")") || strings.HasSuffix(f, "]"))
			default:
				g.emit(f)
			}
		}
	}
	switch t.Choose(19) {
	case 18:
		// write into a literal: if the scanner hands out shared storage for
		// common literals, the next reader of the same literal sees the change
		lit := []string{"<00>", "<ff>", "<01>", "<20>", "<41>", "(a)", "( )", "<0000>", "(A)", "<00ff>"}[t.Choose(10)]
		w(lit + fmt.Sprintf(" dup 0 %d put pop", []int{32, 255, 0, 7}[t.Choose(4)]))
		w("/lit " + lit + " def lit 0 1 put")
	case 16:
		// write into whatever composite object an operator hands out
		w([]string{"matrix", "StandardEncoding", "[ 1 2 3 ]", "6 array"}[t.Choose(4)] + fmt.Sprintf(" dup %d ", t.Choose(6)) + val() + " put pop")
	case 17:
		w([]string{"currentdict", "userdict", "errordict", "FontDirectory", "1183615869 internaldict", "/CIDInit /ProcSet findresource", "systemdict"}[t.Choose(7)] + " dup /evil " + val() + " put pop")
	case 12:
		w("1183615869 internaldict /evil " + val() + " put")
	case 13:
		// non-idempotent in-place change of the standard encoding array
		w(fmt.Sprintf("StandardEncoding %d StandardEncoding %d get put", t.Choose(256), t.Choose(256)))
	case 14:
		w("systemdict /systemdict get /" + sim.Pick(t, sysOps[:60]) + " " + val() + " put")
	case 15:
		w("/CIDInit /ProcSet findresource dup /" + sim.Pick(t, cidOps) + " get /saved exch def /" + sim.Pick(t, cidOps) + " /saved load put")
	case 0:
		w("systemdict /" + sim.Pick(t, sysOps[:60]) + " " + val() + " put")
	case 1:
		w("errordict /" + sim.Pick(t, errs) + " " + val() + " put")
	case 2:
		w(fmt.Sprintf("StandardEncoding %d /hacked put", t.Choose(256)))
	case 3:
		w("/CIDInit /ProcSet findresource /" + sim.Pick(t, cidOps) + " " + val() + " put")
	case 4:
		w("/CIDInit /ProcSet findresource begin /" + sim.Pick(t, cidOps) + " " + val() + " def end")
	case 5:
		w("/" + sim.Pick(t, sysOps[:60]) + " " + val() + " def")
	case 6:
		w("userdict /" + sim.Pick(t, sysOps[:60]) + " " + val() + " put")
	case 7:
		w("FontDirectory /Evil << /FontType 1 >> put")
	case 8:
		w("/CIDInit /ProcSet findresource begin 12 dict begin begincmap /CMapName /Evil def 1 begincodespacerange <00> <ff> endcodespacerange endcmap CMapName currentdict /CMap defineresource pop end end")
	case 9:
		w("systemdict begin /" + sim.Pick(t, sysOps[:60]) + " " + val() + " def end")
	case 10:
		w("/Evil " + val() + " /" + []string{"ProcSet", "CMap", "Font", "CIDFont"}[t.Choose(4)] + " defineresource pop")
	default:
		w("systemdict /errordict get /" + sim.Pick(t, errs) + " " + val() + " put")
	}
	g.st = g.st[:0]
}

// ---------------------------------------------------------------- rendering

var plainSeps = []string{" ", "\n"}
var richSeps = []string{" ", "\n", "\r", "\r\n", "\t", "\f", "\x00", "  ", " \n ", "\n\n"}

func (g *psGen) sep(required bool, atTop bool, sb *strings.Builder) {
	t := g.t
	if g.o.PlainLex {
		if required || t.Bool(7, 8) {
			sb.WriteString(plainSeps[t.Choose(2)])
		}
		return
	}
	if !required && t.Bool(1, 3) {
		return
	}
	switch t.Weighted(12, 2, 1) {
	case 0:
		sb.WriteString(richSeps[t.Choose(len(richSeps))])
	case 1:
		// comment; must not look like a DSC comment at column 0
		sb.WriteString(" % ")
		sb.WriteString([]string{"comment", "a (b) {c} %% d", "", "x\ty"}[t.Choose(4)])
		sb.WriteString([]string{"\n", "\r", "\r\n"}[t.Choose(3)])
	default:
		if g.o.DSC && atTop {
			sb.WriteString([]string{"\n", "\r\n", "\r"}[t.Choose(3)])
			key := []string{"Title", "Creator", "CreationDate", "BoundingBox", "EndComments", "X", "EOF", "Trailer", "BeginResource", "EndResource", "Page"}[t.Choose(11)]
			switch t.Choose(4) {
			case 0:
				sb.WriteString("%%" + key)
			case 1:
				sb.WriteString("%%" + key + ": some value (1)")
			case 2:
				sb.WriteString("%%" + key + ":  first" + []string{"\n", "\r\n", "\r"}[t.Choose(3)] + "%%+ second part")
			default:
				sb.WriteString("%%" + key + " no-colon value")
			}
			sb.WriteString([]string{"\n", "\r\n", "\r"}[t.Choose(3)])
			g.p.HasDSC = true
		} else {
			sb.WriteString("\n")
		}
	}
}

// GenPS draws a program.
func GenPS(t *sim.Tape, o PSOpts) *PSProg {
	if o.MaxTokens == 0 {
		o.MaxTokens = 60
	}
	p := &PSProg{}
	g := &psGen{t: t, o: o, p: p}
	g.budget = 1 + t.Small(o.MaxTokens)
	var topEnds []int // token index after each top-level statement
	for g.budget > 0 {
		g.step()
		topEnds = append(topEnds, len(g.toks))
	}
	for g.dicts > 0 && t.Bool(3, 4) {
		g.emit("end")
		g.dicts--
		topEnds = append(topEnds, len(g.toks))
	}
	p.NTokens = len(g.toks)
	g.render(p)
	return p
}

func (g *psGen) render(p *PSProg) {
	var sb strings.Builder
	t := g.t
	if g.o.DSC && t.Bool(1, 2) {
		sb.WriteString("%!PS-Adobe-3.0\n")
		if t.Bool(1, 2) {
			sb.WriteString("%%Title: generated\n")
			p.HasDSC = true
		}
	}
	depth := 0
	for i, tk := range g.toks {
		if strings.HasPrefix(tk.text, "\x01RAW") {
			// raw bytes for readstring: exactly one separator byte, then data
			sb.WriteByte(' ')
			sb.WriteString(tk.text[4:])
			sb.WriteByte(' ')
			continue
		}
		if i > 0 {
			prev := g.toks[i-1]
			required := !(prev.delimEnd || tk.delimStart)
			if strings.HasPrefix(prev.text, "\x01RAW") {
				required = false
			}
			// a `<` or `>` token adjacent to another `<`/`>` could merge into << or >>
			if !required && (strings.HasSuffix(prev.text, "<") || strings.HasSuffix(prev.text, ">") || strings.HasPrefix(tk.text, "<") || strings.HasPrefix(tk.text, ">")) {
				if strings.HasSuffix(prev.text, "<") && strings.HasPrefix(tk.text, "<") || strings.HasSuffix(prev.text, ">") && strings.HasPrefix(tk.text, ">") {
					required = true
				}
			}
			// a name or number directly followed by `(`... is fine; `/` after `/name` is fine
			// "/" followed by a token starting with "/" would make an empty name: fine too
			before := sb.Len()
			g.sep(required, depth == 0, &sb)
			after := sb.Len()
			// any position inside a pure white-space separator (including
			// both ends) is a legal place to cut the program into calls
			if !strings.Contains(sb.String()[before:after], "%") && !strings.HasPrefix(prev.text, "\x01RAW") {
				p.Gaps = append(p.Gaps, before+t.Choose(after-before+1))
			}
		}
		sb.WriteString(tk.text)
		switch tk.text {
		case "{":
			depth++
		case "}":
			depth--
		}
	}
	if t.Bool(1, 2) {
		sb.WriteString("\n")
	}
	p.Src = []byte(sb.String())
}

// Eexec helpers -------------------------------------------------------------

// EexecEncrypt encrypts plain with the given 4 lead bytes (already part of the
// plaintext stream) using the Adobe Type 1 eexec cipher.
func EexecEncrypt(plain []byte) []byte {
	r := uint16(55665)
	out := make([]byte, len(plain))
	for i, p := range plain {
		c := p ^ byte(r>>8)
		r = (uint16(c)+r)*52845 + 22719
		out[i] = c
	}
	return out
}

// EexecDecrypt is the inverse (including the lead bytes).
func EexecDecrypt(cipher []byte) []byte {
	r := uint16(55665)
	out := make([]byte, len(cipher))
	for i, c := range cipher {
		out[i] = c ^ byte(r>>8)
		r = (uint16(c)+r)*52845 + 22719
	}
	return out
}

func isHexDigit(b byte) bool {
	return b >= '0' && b <= '9' || b >= 'a' && b <= 'f' || b >= 'A' && b <= 'F'
}

// WrapEexec returns head + "currentfile eexec" + encrypted(body) + trailer.
// binary selects binary vs hex armouring.
func WrapEexec(t *sim.Tape, head, body, trailer []byte, binary bool) []byte {
	return wrapEexec(t, head, body, trailer, binary, false)
}

// wrapEexec: with damage, one hex section in six has one undecodable digit.
func wrapEexec(t *sim.Tape, head, body, trailer []byte, binary bool, damage bool) []byte {
	var cipher []byte
	for try := 0; ; try++ {
		iv := t.Bytes(4)
		if binary && damage && try == 0 && t.Choose(8) == 0 {
			// a binary section whose first four bytes happen to be hexadecimal
			// digits (the lead bytes are chosen to make it so): whichever way a
			// reader takes it, it has to take it the same way under every delivery
			r := uint16(55665)
			for i := range iv {
				c := "0123456789abcdefABCDEF"[t.Choose(22)]
				iv[i] = c ^ byte(r>>8)
				r = (uint16(c)+r)*52845 + 22719
			}
			cipher = EexecEncrypt(append(append([]byte{}, iv...), body...))
			break
		}
		cipher = EexecEncrypt(append(append([]byte{}, iv...), body...))
		if !binary {
			break
		}
		c0 := cipher[0]
		if c0 == ' ' || c0 == '\t' || c0 == '\r' || c0 == '\n' {
			continue
		}
		allHex := true
		for _, b := range cipher[:4] {
			if !isHexDigit(b) {
				allHex = false
			}
		}
		if !allHex {
			break
		}
	}
	var out []byte
	out = append(out, head...)
	out = append(out, "currentfile eexec"...)
	out = append(out, []string{"\n", " ", "\r\n", "\r", " \n"}[t.Choose(5)]...)
	if binary {
		out = append(out, cipher...)
	} else {
		upper := t.Bool(1, 3)
		// one time in six a single hexadecimal digit is damaged (a byte that does
		// not decode is not a read error: it must not be mistaken for one) -
		// preferably the byte right after a '>' or '<', where the scanner looks
		// two bytes ahead
		bad := -1
		if damage && t.Choose(6) == 0 && len(cipher) > 5 {
			bad = 4 + t.Choose(len(cipher)-4)
			var cands []int
			for k := 0; k+1 < len(body); k++ {
				if body[k] == '>' || body[k] == '<' || body[k] == '%' {
					cands = append(cands, 4+k+1)
				}
			}
			if len(cands) > 0 && t.Bool(2, 3) {
				bad = cands[t.Choose(len(cands))]
			}
		}
		for i, c := range cipher {
			h := fmt.Sprintf("%02x", c)
			if upper {
				h = strings.ToUpper(h)
			}
			if i == bad {
				h = h[:1] + []string{"l", "x", "g", "~", "#"}[t.Choose(5)]
			}
			out = append(out, h...)
			// white space is allowed anywhere after the first four digits... the
			// detection peeks 4 bytes, so keep the first 4 digits contiguous
			if i >= 2 && t.Bool(1, 10) {
				out = append(out, []string{"\n", " ", "\r\n", "\t"}[t.Choose(4)]...)
			}
		}
		out = append(out, '\n')
	}
	out = append(out, trailer...)
	return out
}

// GenPSWithEexec draws a program whose tail is eexec-encrypted.
func GenPSWithEexec(t *sim.Tape, o PSOpts) *PSProg {
	o1 := o
	o1.MaxTokens = max(4, o.MaxTokens/2)
	o1.Files = false
	head := GenPS(t, o1)
	o2 := o1
	o2.DSC = false
	o2.Stop = false
	inner := GenPS(t, o2)
	body := append([]byte{}, inner.Src...)
	closes := t.Bool(3, 4)
	var trailer []byte
	if closes {
		body = append(body, "\nmark currentfile closefile\n"...)
		for i := t.Small(8); i >= 0; i-- {
			trailer = append(trailer, "0000000000000000000000000000000000000000000000000000000000000000\n"...)
		}
		trailer = append(trailer, "cleartomark\n"...)
		if t.Bool(1, 2) {
			tail := GenPS(t, o2)
			trailer = append(trailer, tail.Src...)
		}
	} else {
		body = append(body, '\n')
	}
	binary := t.Bool(1, 2)
	src := wrapEexec(t, append(head.Src, '\n'), body, trailer, binary, true)
	p := &PSProg{Src: src, HasFiles: true, HasEexec: true, HasDSC: head.HasDSC, HasStop: head.HasStop || inner.HasStop,
		HasLoop: head.HasLoop || inner.HasLoop, HasProcCall: head.HasProcCall || inner.HasProcCall, NTokens: head.NTokens + inner.NTokens}
	return p
}
