// Package dump serialises everything reachable through the library's public
// API into a canonical text: sorted map keys, identity numbering for
// dictionaries and arrays (so aliasing and cycles are captured and terminate),
// builtins by function name, reals by bit pattern, never an address.  Two dumps
// are comparable across schedules, runs and processes.
package dump

import (
	"errors"
	"fmt"
	"io"
	"math"
	"reflect"
	"runtime"
	"sort"
	"strings"

	"seehuhn.de/go/postscript"
	"seehuhn.de/go/postscript/afm"
	"seehuhn.de/go/postscript/pfb"
	"seehuhn.de/go/postscript/type1"
)

type dumper struct {
	sb     strings.Builder
	dicts  map[uintptr]int
	slices map[sliceKey]int
	depth  int
	// skipBuiltinDicts elides the contents of dictionaries that are identical
	// to the pristine system dictionary layout (only a digest is kept).
	sys postscript.Dict
}

type sliceKey struct {
	p   uintptr
	len int
	k   byte
}

func newDumper() *dumper {
	return &dumper{dicts: map[uintptr]int{}, slices: map[sliceKey]int{}}
}

func funcName(v reflect.Value) string {
	f := runtime.FuncForPC(v.Pointer())
	if f == nil {
		return "?"
	}
	n := f.Name()
	if i := strings.LastIndex(n, "/"); i >= 0 {
		n = n[i+1:]
	}
	return n
}

func (d *dumper) obj(o postscript.Object) {
	if d.depth > 200 {
		d.sb.WriteString("<deep>")
		return
	}
	d.depth++
	defer func() { d.depth-- }()
	switch x := o.(type) {
	case nil:
		d.sb.WriteString("currentfile")
	case postscript.Integer:
		fmt.Fprintf(&d.sb, "i%d", int64(x))
	case postscript.Real:
		fmt.Fprintf(&d.sb, "r%016x", math.Float64bits(float64(x)))
	case postscript.Boolean:
		fmt.Fprintf(&d.sb, "b%t", bool(x))
	case postscript.String:
		fmt.Fprintf(&d.sb, "s%q", []byte(x))
	case postscript.Name:
		fmt.Fprintf(&d.sb, "n%q", string(x))
	case postscript.Operator:
		fmt.Fprintf(&d.sb, "x%q", string(x))
	case postscript.Array:
		d.slice('A', []postscript.Object(x))
	case postscript.Procedure:
		d.slice('P', []postscript.Object(x))
	case postscript.Dict:
		d.dict(x)
	case *postscript.CMapInfo:
		d.cmapInfo(x)
	default:
		v := reflect.ValueOf(o)
		switch v.Kind() {
		case reflect.Func:
			fmt.Fprintf(&d.sb, "F<%s>", funcName(v))
		default:
			fmt.Fprintf(&d.sb, "<%s>", v.Type().String())
		}
	}
}

func (d *dumper) slice(kind byte, s []postscript.Object) {
	if len(s) == 0 {
		fmt.Fprintf(&d.sb, "%c[]", kind)
		return
	}
	key := sliceKey{reflect.ValueOf(s).Pointer(), len(s), kind}
	if id, ok := d.slices[key]; ok {
		fmt.Fprintf(&d.sb, "%c#%d", kind, id)
		return
	}
	id := len(d.slices)
	d.slices[key] = id
	fmt.Fprintf(&d.sb, "%c#%d[", kind, id)
	for i, e := range s {
		if i > 0 {
			d.sb.WriteByte(' ')
		}
		d.obj(e)
	}
	d.sb.WriteByte(']')
}

func (d *dumper) dict(x postscript.Dict) {
	if x == nil {
		d.sb.WriteString("D<nil>")
		return
	}
	p := reflect.ValueOf(x).Pointer()
	if id, ok := d.dicts[p]; ok {
		fmt.Fprintf(&d.sb, "D#%d", id)
		return
	}
	id := len(d.dicts)
	d.dicts[p] = id
	keys := make([]string, 0, len(x))
	for k := range x {
		keys = append(keys, string(k))
	}
	sort.Strings(keys)
	fmt.Fprintf(&d.sb, "D#%d{", id)
	for _, k := range keys {
		fmt.Fprintf(&d.sb, "%q:", k)
		d.obj(x[postscript.Name(k)])
		d.sb.WriteByte(' ')
	}
	d.sb.WriteByte('}')
}

func (d *dumper) cmapInfo(c *postscript.CMapInfo) {
	if c == nil {
		d.sb.WriteString("CMapInfo<nil>")
		return
	}
	fmt.Fprintf(&d.sb, "CMapInfo{use=%q csr=[", string(c.UseCMap))
	for _, r := range c.CodeSpaceRanges {
		fmt.Fprintf(&d.sb, "%x-%x ", r.Low, r.High)
	}
	d.sb.WriteString("]")
	chars := func(name string, l []postscript.CharMap) {
		fmt.Fprintf(&d.sb, " %s=[", name)
		for _, c := range l {
			fmt.Fprintf(&d.sb, "%x>", c.Src)
			d.obj(c.Dst)
			d.sb.WriteByte(' ')
		}
		d.sb.WriteString("]")
	}
	ranges := func(name string, l []postscript.RangeMap) {
		fmt.Fprintf(&d.sb, " %s=[", name)
		for _, c := range l {
			fmt.Fprintf(&d.sb, "%x-%x>", c.Low, c.High)
			d.obj(c.Dst)
			d.sb.WriteByte(' ')
		}
		d.sb.WriteString("]")
	}
	chars("cidchars", c.CidChars)
	ranges("cidranges", c.CidRanges)
	chars("bfchars", c.BfChars)
	ranges("bfranges", c.BfRanges)
	chars("notdefchars", c.NotdefChars)
	ranges("notdefranges", c.NotdefRanges)
	d.sb.WriteString("}")
}

// Object dumps a single PostScript object.
func Object(o postscript.Object) string {
	d := newDumper()
	d.obj(o)
	return d.sb.String()
}

// Interp dumps the complete public state of an interpreter.
func Interp(in *postscript.Interpreter) string {
	d := newDumper()
	fmt.Fprintf(&d.sb, "NumOps=%d CheckStart=%t\nStack(%d):", in.NumOps, in.CheckStart, len(in.Stack))
	for _, o := range in.Stack {
		d.sb.WriteByte(' ')
		d.obj(o)
	}
	fmt.Fprintf(&d.sb, "\nDictStack(%d):", len(in.DictStack))
	for _, o := range in.DictStack {
		d.sb.WriteByte(' ')
		d.dict(o)
	}
	d.sb.WriteString("\nSystemDict: ")
	d.dict(in.SystemDict)
	d.sb.WriteString("\nUserDict: ")
	d.dict(in.UserDict)
	d.sb.WriteString("\nErrorDict: ")
	d.dict(in.ErrorDict)
	d.sb.WriteString("\nInternalDict: ")
	d.dict(in.InternalDict)
	d.sb.WriteString("\nResources: ")
	d.dict(in.Resources)
	d.sb.WriteString("\nFontDirectory: ")
	d.dict(in.FontDirectory)
	d.sb.WriteString("\nCMapDirectory: ")
	d.dict(in.CMapDirectory)
	d.sb.WriteString("\nDSC:")
	for _, c := range in.DSC {
		fmt.Fprintf(&d.sb, " %q=%q", c.Key, c.Value)
	}
	d.sb.WriteByte('\n')
	return d.sb.String()
}

// InterpNoDSC is Interp without the DSC comment list.  Execute appends the
// comments of a call only when that call succeeds, so after a failing call the
// list legitimately depends on how the program was cut into calls.
func InterpNoDSC(in *postscript.Interpreter) string {
	s := Interp(in)
	if i := strings.LastIndex(s, "\nDSC:"); i >= 0 {
		return s[:i+1]
	}
	return s
}

// InterpNoOps is Interp without the operation counter (for comparisons across
// different ways of feeding the same program where the count is not part of
// the claim).
func InterpNoOps(in *postscript.Interpreter) string {
	s := Interp(in)
	if i := strings.IndexByte(s, ' '); i >= 0 {
		return s[i+1:]
	}
	return s
}

// Err dumps an error: nil-ness, identity of the exported sentinels, message.
func Err(err error) string {
	if err == nil {
		return "err=nil"
	}
	id := ""
	switch {
	case err == postscript.ErrExecutionLimitExceeded:
		id = "ErrExecutionLimitExceeded"
	case err == postscript.ErrNoPostScript:
		id = "ErrNoPostScript"
	case err == pfb.ErrInvalidPFB:
		id = "ErrInvalidPFB"
	case err == io.EOF:
		id = "io.EOF"
	case err == io.ErrUnexpectedEOF:
		id = "io.ErrUnexpectedEOF"
	case errors.Is(err, io.ErrNoProgress):
		id = "io.ErrNoProgress"
	}
	return fmt.Sprintf("err[%s]=%q", id, err.Error())
}

func f64(x float64) string { return fmt.Sprintf("%016x", math.Float64bits(x)) }

// Font dumps a *type1.Font.
func Font(f *type1.Font) string {
	if f == nil {
		return "Font<nil>"
	}
	var sb strings.Builder
	sb.WriteString("Font{")
	if f.FontInfo != nil {
		fi := f.FontInfo
		fmt.Fprintf(&sb, "name=%q ver=%q notice=%q copyright=%q full=%q family=%q weight=%q italic=%s fixed=%t up=%s ut=%s matrix=",
			fi.FontName, fi.Version, fi.Notice, fi.Copyright, fi.FullName, fi.FamilyName, fi.Weight,
			f64(fi.ItalicAngle), fi.IsFixedPitch, f64(float64(fi.UnderlinePosition)), f64(float64(fi.UnderlineThickness)))
		for _, v := range fi.FontMatrix {
			sb.WriteString(f64(v) + ",")
		}
	} else {
		sb.WriteString("info=nil")
	}
	if f.Private != nil {
		p := f.Private
		fmt.Fprintf(&sb, " private{bv=%v ob=%v bs=%s bsh=%d bf=%d hw=%s vw=%s fb=%t}", p.BlueValues, p.OtherBlues,
			f64(p.BlueScale), p.BlueShift, p.BlueFuzz, f64(p.StdHW), f64(p.StdVW), p.ForceBold)
	} else {
		sb.WriteString(" private=nil")
	}
	fmt.Fprintf(&sb, " date=%q", f.CreationDate.UTC().Format("2006-01-02T15:04:05.000000000Z"))
	if !f.CreationDate.IsZero() {
		_, off := f.CreationDate.Zone()
		fmt.Fprintf(&sb, "@%d", off)
	}
	if f.Encoding == nil {
		sb.WriteString(" enc=nil")
	} else {
		fmt.Fprintf(&sb, " enc(%d)=%q", len(f.Encoding), f.Encoding)
	}
	names := make([]string, 0, len(f.Glyphs))
	for n := range f.Glyphs {
		names = append(names, n)
	}
	sort.Strings(names)
	fmt.Fprintf(&sb, " glyphs(%d)[", len(names))
	for _, n := range names {
		g := f.Glyphs[n]
		if g == nil {
			fmt.Fprintf(&sb, "%q:nil ", n)
			continue
		}
		fmt.Fprintf(&sb, "%q:{w=%s,%s h=", n, f64(g.WidthX), f64(g.WidthY))
		for _, v := range g.HStem {
			sb.WriteString(f64(float64(v)) + ",")
		}
		sb.WriteString(" v=")
		for _, v := range g.VStem {
			sb.WriteString(f64(float64(v)) + ",")
		}
		sb.WriteString(" c=")
		for _, c := range g.Cmds {
			fmt.Fprintf(&sb, "%d(", int(c.Op))
			for _, a := range c.Args {
				sb.WriteString(f64(a) + ",")
			}
			sb.WriteString(")")
		}
		sb.WriteString("} ")
	}
	sb.WriteString("]}")
	return sb.String()
}

// Metrics dumps an *afm.Metrics.
func Metrics(m *afm.Metrics) string {
	if m == nil {
		return "Metrics<nil>"
	}
	var sb strings.Builder
	fmt.Fprintf(&sb, "Metrics{name=%q full=%q ver=%q notice=%q cap=%s xh=%s asc=%s desc=%s up=%s ut=%s ia=%s fixed=%t",
		m.FontName, m.FullName, m.Version, m.Notice, f64(m.CapHeight), f64(m.XHeight), f64(m.Ascent), f64(m.Descent),
		f64(m.UnderlinePosition), f64(m.UnderlineThickness), f64(m.ItalicAngle), m.IsFixedPitch)
	if m.Encoding == nil {
		sb.WriteString(" enc=nil")
	} else {
		fmt.Fprintf(&sb, " enc(%d)=%q", len(m.Encoding), m.Encoding)
	}
	names := make([]string, 0, len(m.Glyphs))
	for n := range m.Glyphs {
		names = append(names, n)
	}
	sort.Strings(names)
	fmt.Fprintf(&sb, " glyphs(%d)[", len(names))
	for _, n := range names {
		g := m.Glyphs[n]
		if g == nil {
			fmt.Fprintf(&sb, "%q:nil ", n)
			continue
		}
		fmt.Fprintf(&sb, "%q:{w=%s bb=%s,%s,%s,%s lig=", n, f64(g.WidthX), f64(g.BBox.LLx), f64(g.BBox.LLy), f64(g.BBox.URx), f64(g.BBox.URy))
		ls := make([]string, 0, len(g.Ligatures))
		for k := range g.Ligatures {
			ls = append(ls, k)
		}
		sort.Strings(ls)
		for _, k := range ls {
			fmt.Fprintf(&sb, "%q>%q,", k, g.Ligatures[k])
		}
		sb.WriteString("} ")
	}
	sb.WriteString("] kern[")
	for _, k := range m.Kern {
		if k == nil {
			sb.WriteString("nil ")
			continue
		}
		fmt.Fprintf(&sb, "%q %q %d;", k.Left, k.Right, k.Adjust)
	}
	sb.WriteString("]}")
	return sb.String()
}
