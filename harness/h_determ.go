package harness

import (
	"bufio"
	"bytes"
	"crypto/sha256"
	"encoding/hex"
	"encoding/json"
	"fmt"
	"os"
	"os/exec"
	"runtime"
	"runtime/debug"
	"sort"
	"strings"
	"time"

	"seehuhn.de/go/postscript"
	"seehuhn.de/go/postscript/afm"
	"seehuhn.de/go/postscript/type1"

	"verif/dump"
	"verif/gen"
	"verif/sim"
	"verif/simrt"
)

// detOp is one operation whose output must not depend on map order, clock or
// addresses.
type detOp struct {
	name string
	run  func() string
	// heavy operations are repeated under two orders only
	heavy bool
}

func digest(s string) string {
	h := sha256.Sum256([]byte(s))
	return hex.EncodeToString(h[:8])
}

// detWorkload regenerates the values of a run from its value tape and returns
// the operations on them.  It must itself be deterministic.
func detWorkload(t *sim.Tape) (ops []detOp, desc string) {
	f := gen.GenFont(t, 40)
	m := gen.GenMetrics(t, 30)
	ncm := 2 + t.Choose(3)
	cmapFile := gen.GenCMapFile(t, ncm)
	prog := gen.GenPS(t, gen.PSOpts{MaxTokens: 60, ForallDict: false, Errors: 3, MaxAlloc: 50, Hostile: false, PlainLex: true})
	desc = fmt.Sprintf("%s; metrics with %d glyphs, %d kern pairs; CMap file with %d CMaps; program of %d tokens", gen.DescribeFont(f), len(m.Glyphs), len(m.Kern), ncm, prog.NTokens)

	// first of all, before anything else has run in a fresh process: the
	// package's default options
	ops = append(ops, detOp{name: "Font.Write(default options)", run: func() string {
		var buf bytes.Buffer
		err := f.Write(&buf, nil)
		return dump.Err(err) + " " + buf.String()
	}})
	var fontFiles [][]byte
	for _, format := range gen.FontFormats {
		format := format
		ops = append(ops, detOp{name: fmt.Sprintf("Font.Write(format %d)", format), run: func() string {
			var buf bytes.Buffer
			err := f.Write(&buf, &type1.WriterOptions{Format: format})
			return dump.Err(err) + " " + buf.String()
		}})
		b, err := gen.FontFile(f, format)
		if err == nil {
			fontFiles = append(fontFiles, b)
		}
	}
	ops = append(ops, detOp{name: "Font.WritePDF", run: func() string {
		var buf bytes.Buffer
		a, b, err := f.WritePDF(&buf)
		return fmt.Sprintf("%s %d %d %s", dump.Err(err), a, b, buf.String())
	}})
	ops = append(ops, detOp{name: "Metrics.Write", run: func() string {
		var buf bytes.Buffer
		err := m.Write(&buf)
		return dump.Err(err) + " " + buf.String()
	}})
	for i, file := range fontFiles {
		file := file
		ops = append(ops, detOp{name: fmt.Sprintf("type1.Read(file %d)", i), run: func() string {
			g, err := type1.Read(bytes.NewReader(file))
			return dump.Err(err) + " " + dump.Font(g)
		}})
	}
	var afmFile bytes.Buffer
	m.Write(&afmFile)
	afmBytes := gen.AFMRelayout(t, m) // order-free rendering (sorted ligatures)
	ops = append(ops, detOp{name: "afm.Read", run: func() string {
		g, err := afm.Read(bytes.NewReader(afmBytes))
		return dump.Err(err) + " " + dump.Metrics(g)
	}})
	seacFile, seacDesc := gen.SeacFont(t)
	desc += "; " + seacDesc
	if seacFile != nil {
		ops = append(ops, detOp{name: "type1.Read(seac font)", run: func() string {
			g, err := type1.Read(bytes.NewReader(seacFile))
			return dump.Err(err) + " " + dump.Font(g)
		}})
		ops = append(ops, detOp{name: "type1.Read(seac font) then Font.Write", run: func() string {
			g, err := type1.Read(bytes.NewReader(seacFile))
			if err != nil {
				return dump.Err(err)
			}
			var buf bytes.Buffer
			err = g.Write(&buf, nil)
			return dump.Err(err) + " " + buf.String()
		}})
	}
	if t.Choose(3) == 0 {
		if bf, _ := gen.BigSeacFont(t); bf != nil {
			ops = append(ops, detOp{name: "type1.Read(large seac font)", run: func() string {
				g, err := type1.Read(bytes.NewReader(bf))
				return dump.Err(err) + " " + dump.Font(g)
			}})
			// many reads in a row: if the library spreads work over goroutines of
			// its own, their completion order varies from read to read
			ops = append(ops, detOp{name: "type1.Read x60 (large seac font, same bytes)", heavy: true, run: func() string {
				first := ""
				for i := 0; i < 60; i++ {
					g, err := type1.Read(bytes.NewReader(bf))
					r := dump.Err(err) + " " + dump.Font(g)
					if i == 0 {
						first = r
					} else if r != first {
						return fmt.Sprintf("INCONSISTENT: read #%d of the same bytes differs from read #0: %s", i, firstDiff(r, first))
					}
				}
				return digest(first)
			}})
		}
	}
	// a series of fonts that differ in their outlines only, each built afresh,
	// written and dropped, with collections in between: later ones live where
	// earlier ones lived
	nsib := 6 + t.Choose(20)
	ops = append(ops, detOp{name: fmt.Sprintf("Font.Write of %d look-alike fonts, each built afresh and dropped", nsib), run: func() string {
		var sb strings.Builder
		for i := 0; i < nsib; i++ {
			sib := gen.SiblingFont(f, i)
			var buf bytes.Buffer
			err := sib.Write(&buf, &type1.WriterOptions{Format: gen.FontFormats[i%len(gen.FontFormats)]})
			sb.WriteString(digest(dump.Err(err)+" "+buf.String()) + " ")
			sib = nil
			if i%2 == 1 {
				runtime.GC()
			}
		}
		return sb.String()
	}})
	// inputs that allocate a lot and keep little: strings that are dropped at
	// once, 80-105 MB through ReadCMap (one run in three), 270 MB through
	// type1.Read (one run in twelve)
	if gk := t.Choose(12); gk < 4 {
		nbig := 1200 + t.Choose(400)
		withFont := gk == 0
		ops = append(ops, detOp{name: "ReadCMap (and type1.Read) of inputs that allocate 80-270 MB of short-lived strings", run: func() string {
			alloc := fmt.Sprintf("%d { 65535 string pop } repeat\n", nbig)
			d, err := postscript.ReadCMap(strings.NewReader("/CIDInit /ProcSet findresource begin 12 dict begin begincmap /CMapName /G def 1 begincodespacerange <00> <ff> endcodespacerange\n" + alloc + "endcmap CMapName currentdict /CMap defineresource pop end end\n"))
			r := dump.Err(err)
			if d != nil {
				r += " " + dump.Object(d)
			}
			if !withFont {
				return r
			}
			tf := gen.TinyFont(sim.ReplayTape([]uint32{1, 2}))
			if i := bytes.IndexByte(tf, '\n'); i > 0 {
				tf = append(append(append([]byte{}, tf[:i+1]...), "4150 { 65535 string pop } repeat\n"...), tf[i+1:]...)
			}
			g, err2 := type1.Read(bytes.NewReader(tf))
			return r + " | " + dump.Err(err2) + " " + dump.Font(g)
		}})
	}
	// the budget error (a shared value) with whatever text and position
	// information it carries, several times over
	ops = append(ops, detOp{name: "Execute(program over budget) x3", run: func() string {
		r := ""
		for i, src := range []string{"1 2 add pop\n\n\n{ 1 pop } loop", "%!PS\n/a { a } def\n 1 1 100000 { pop } for", "{ } loop"} {
			in := postscript.NewInterpreter()
			in.MaxOps = 200 + 50*i
			err := in.Execute(strings.NewReader(src))
			r += fmt.Sprintf("[%s %d]", dump.Err(err), in.NumOps)
		}
		d, err := postscript.ReadCMap(strings.NewReader("/CIDInit /ProcSet findresource begin 1 1 10000000 { pop } for"))
		return r + fmt.Sprintf(" ReadCMap: %v %s", d == nil, dump.Err(err))
	}})
	if lf, n := gen.LenIVFont(t); lf != nil {
		// an ordinary font read again after a font with another lenIV
		ord := fontFiles
		ops = append(ops, detOp{name: fmt.Sprintf("type1.Read(lenIV %d font) then ordinary font", n), run: func() string {
			g, err := type1.Read(bytes.NewReader(lf))
			r := dump.Err(err) + " " + dump.Font(g)
			if len(ord) > 0 {
				g2, err2 := type1.Read(bytes.NewReader(ord[len(ord)-1]))
				r += " | " + dump.Err(err2) + " " + dump.Font(g2)
			}
			return r
		}})
	}
	if bm := gen.BadFontMatrixFont(t); bm != nil && t.Choose(3) == 0 {
		ord := fontFiles
		ops = append(ops, detOp{name: "type1.Read x40 (non-numeric FontMatrix entry) then ordinary font", run: func() string {
			r := ""
			for i := 0; i < 40; i++ {
				g, err := type1.Read(bytes.NewReader(bm))
				r = dump.Err(err) + " " + dump.Font(g)
			}
			if len(ord) > 0 {
				g2, err2 := type1.Read(bytes.NewReader(ord[0]))
				r += " | " + dump.Err(err2) + " " + digest(dump.Font(g2))
			}
			return r
		}})
	}
	if fw := gen.FractionalWidthFont(t); fw != nil {
		ops = append(ops, detOp{name: "type1.Read(fractional widths, no .notdef, no space)", run: func() string {
			g, err := type1.Read(bytes.NewReader(fw))
			return dump.Err(err) + " " + dump.Font(g)
		}})
	}
	if so, sp := gen.SubrFontPair(t); so != nil && sp != nil {
		ops = append(ops, detOp{name: "type1.Read(font with Subrs) after a lenIV 0 font with the same Subrs bytes", run: func() string {
			_, err0 := type1.Read(bytes.NewReader(sp))
			g, err := type1.Read(bytes.NewReader(so))
			return dump.Err(err0) + " | " + dump.Err(err) + " " + dump.Font(g)
		}})
	}
	if cf := gen.CaseVariantFont(t); cf != nil {
		ops = append(ops, detOp{name: "type1.Read(FontInfo keys differing in case only)", run: func() string {
			g, err := type1.Read(bytes.NewReader(cf))
			return dump.Err(err) + " " + dump.Font(g)
		}})
	}
	if af := gen.AliasFont(t); af != nil {
		ops = append(ops, detOp{name: "type1.Read(font registered under two names)", run: func() string {
			g, err := type1.Read(bytes.NewReader(af))
			return dump.Err(err) + " " + dump.Font(g)
		}})
	}
	odd := gen.GenCMapMisuse(t)
	ops = append(ops, detOp{name: "ReadCMap(misused operators)", run: func() string {
		d, err := postscript.ReadCMap(bytes.NewReader(odd))
		if d == nil {
			return dump.Err(err) + " nil"
		}
		return dump.Err(err) + " " + dump.Object(d)
	}})
	// the same bytes read many times in a row: a result that changes after the
	// n-th read in a process (state carried from call to call) shows up here
	// "Reading the same bytes twice produces equal results", literally: K reads
	// in a row inside one operation; any read that differs from the first one is
	// reported whatever the other repetitions say.  One run in six uses enough
	// reads (>= 1.2 million interpreter operations in total) for state that
	// accumulates from call to call to matter.
	nReads := 40
	heavy := t.Choose(6) == 0
	if heavy {
		nReads = 700
	}
	ops = append(ops, detOp{name: fmt.Sprintf("ReadCMap x%d (same bytes)", nReads), heavy: heavy, run: func() string {
		first := ""
		for i := 0; i < nReads; i++ {
			d, err := postscript.ReadCMap(bytes.NewReader(cmapFile))
			r := dump.Err(err)
			if d != nil {
				r += " " + dump.Object(d)
			}
			if i == 0 {
				first = r
			} else if r != first {
				return fmt.Sprintf("INCONSISTENT: read #%d of the same bytes differs from read #0: %s", i, firstDiff(r, first))
			}
		}
		return first
	}})
	if len(fontFiles) > 0 {
		ff := fontFiles[0]
		ops = append(ops, detOp{name: "type1.Read x12 (same bytes)", run: func() string {
			first := ""
			for i := 0; i < 12; i++ {
				g, err := type1.Read(bytes.NewReader(ff))
				r := dump.Err(err) + dump.Font(g)
				if i == 0 {
					first = r
				} else if r != first {
					return fmt.Sprintf("INCONSISTENT: read #%d of the same bytes differs from read #0: %s", i, firstDiff(r, first))
				}
			}
			return digest(first)
		}})
	}
	ops = append(ops, detOp{name: "ReadCMap(multi)", run: func() string {
		d, err := postscript.ReadCMap(bytes.NewReader(cmapFile))
		if d == nil {
			return dump.Err(err) + " nil"
		}
		return dump.Err(err) + " " + dump.Object(d)
	}})
	ops = append(ops, detOp{name: "Execute(program)", run: func() string {
		in := postscript.NewInterpreter()
		in.MaxOps = psSafetyBudget
		err := in.Execute(bytes.NewReader(prog.Src))
		return dump.Err(err) + " " + dump.Interp(in)
	}})
	// dictionary operators whose result must not depend on iteration order:
	// copy between dictionaries, forall with an order-free body
	nk := 2 + t.Choose(6)
	var dsrc strings.Builder
	dsrc.WriteString("/d1 <<")
	for i := 0; i < nk; i++ {
		fmt.Fprintf(&dsrc, " /k%d %d", t.Choose(12), i)
	}
	dsrc.WriteString(" >> def /d2 20 dict def d1 d2 copy pop d2 { pop pop } forall d2 length d1 length d2 /k1 known currentdict d2 copy length")
	dprog := dsrc.String()
	ops = append(ops, detOp{name: "Execute(dict copy/forall)", run: func() string {
		in := postscript.NewInterpreter()
		in.MaxOps = psSafetyBudget
		err := in.Execute(strings.NewReader(dprog))
		return dump.Err(err) + " " + dump.Interp(in)
	}})
	// a hostile program in its own interpreter: whatever it does must not change
	// what the other operations return when they are repeated
	hp := gen.GenPS(t, gen.PSOpts{MaxTokens: 40, Errors: 4, MaxAlloc: 40, Hostile: true, PlainLex: true, Stop: true})
	ops = append(ops, detOp{name: "Execute(hostile program)", run: func() string {
		in := postscript.NewInterpreter()
		in.MaxOps = psSafetyBudget
		err := in.Execute(bytes.NewReader(hp.Src))
		if hostileIteratesDict(hp.Src, psSafetyBudget) {
			return "program iterates a dictionary: order left open by PostScript"
		}
		return dump.Err(err) + " " + dump.InterpNoDSC(in)
	}})
	ops = append(ops, detOp{name: "Font queries", run: func() string {
		var sb strings.Builder
		fmt.Fprintf(&sb, "n=%d list=%q bbox=%v bboxPDF=%v", f.NumGlyphs(), f.GlyphList(), f.FontBBox(), f.FontBBoxPDF())
		w := f.WidthsMapPDF()
		keys := make([]string, 0, len(w))
		for k := range w {
			keys = append(keys, k)
		}
		sort.Strings(keys)
		for _, k := range keys {
			fmt.Fprintf(&sb, " %s=%v", k, w[k])
		}
		return sb.String()
	}})
	ops = append(ops, detOp{name: "Metrics queries", run: func() string {
		return fmt.Sprintf("n=%d list=%q bbox=%v", m.NumGlyphs(), m.GlyphList(), m.FontBBoxPDF())
	}})
	return ops, desc
}

// --- helper co-process: a second OS process (other map hash seed, other
// addresses) that regenerates the same values and reports output digests under
// Go's native map order.

type detHelper struct {
	cmd *exec.Cmd
	in  *bufio.Writer
	out *bufio.Reader
}

var helper *detHelper

func startDetHelper() {
	exe, _ := os.Executable()
	cmd := exec.Command(exe, "C17", "helper")
	// the second process also lives in another time zone than the first one
	// (which runs with TZ=America/St_Johns, see Batch.Env): nothing observable
	// may depend on the process's local time zone
	cmd.Env = append(os.Environ(), "TZ=Asia/Tokyo")
	cmd.Stderr = os.Stderr
	w, _ := cmd.StdinPipe()
	r, _ := cmd.StdoutPipe()
	if err := cmd.Start(); err != nil {
		fmt.Fprintln(os.Stderr, "cannot start helper process:", err)
		os.Exit(3)
	}
	helper = &detHelper{cmd, bufio.NewWriter(w), bufio.NewReaderSize(r, 1<<20)}
}

// DetHelperMain is the helper's main loop: one JSON tape per line in, one JSON
// digest map per line out.
func DetHelperMain() {
	in := bufio.NewReaderSize(os.Stdin, 1<<20)
	out := bufio.NewWriter(os.Stdout)
	simrt.SetOrder(simrt.OrderNative, nil)
	for {
		line, err := in.ReadBytes('\n')
		if len(line) == 0 && err != nil {
			return
		}
		var tape []uint32
		if json.Unmarshal(line, &tape) != nil {
			return
		}
		ops, _ := detWorkload(sim.ReplayTape(tape))
		res := map[string]string{}
		for _, op := range ops {
			res[op.name] = digest(safeOp(op))
		}
		js, _ := json.Marshal(res)
		out.Write(js)
		out.WriteByte('\n')
		out.Flush()
	}
}

func (h *detHelper) digests(tape []uint32) (map[string]string, error) {
	js, _ := json.Marshal(tape)
	h.in.Write(js)
	h.in.WriteByte('\n')
	if err := h.in.Flush(); err != nil {
		return nil, err
	}
	line, err := h.out.ReadBytes('\n')
	if err != nil {
		return nil, err
	}
	var res map[string]string
	if err := json.Unmarshal(line, &res); err != nil {
		return nil, err
	}
	return res, nil
}

func safeOp(op detOp) (res string) {
	defer func() {
		if p := recover(); p != nil {
			res = fmt.Sprintf("PANIC: %v", p)
		}
	}()
	return op.run()
}

var junk [][]byte

// churn moves the heap around between repetitions (different addresses for the
// next allocation pattern).
func churn(t *sim.Tape) {
	junk = junk[:0]
	for i := t.Choose(8); i > 0; i-- {
		junk = append(junk, make([]byte, 1+t.Choose(1<<14)))
	}
	if t.Bool(1, 4) {
		runtime.GC()
	}
}

type orderSpec struct {
	name string
	mode simrt.OrderMode
}

// C17 builds the check for property C17.  It must be linked against the
// instrumented copy of the library.
func C17() *sim.Check {
	sitesByID := loadSites()
	libGoroutines, libBlocking := sitesOfKind("go") > 0, sitesOfKind("blocking") > 0
	b := &sim.Batch{Name: "orders", Quick: 900, Thorough: 12_000, Isolated: true, PerProc: 40, Workers: 16, ChildTimeout: 1800 * time.Second, StallAfter: 300 * time.Second, Env: []string{"TZ=America/St_Johns", "GOMEMLIMIT=3GiB"}}
	b.ChildInit = startDetHelper
	b.Run = func(c *sim.RunCtx) *sim.Outcome {
		t := c.T
		// the draws consumed while generating the values are the value tape: the
		// helper process regenerates the same values by replaying them
		start := len(t.Rec)
		ops, desc := detWorkload(t)
		vt := append([]uint32(nil), t.Rec[start:]...)
		c.St.Sample(map[string]any{"values": desc, "operations": len(ops)})

		// reference: canonical (sorted) map order, frozen clock
		simrt.SetClock(true, time.Unix(1_600_000_000, 0), t)
		simrt.SetOrder(simrt.OrderSorted, t)
		ref := make([]string, len(ops))
		for i, op := range ops {
			ref[i] = safeOp(op)
			if strings.HasPrefix(ref[i], "INCONSISTENT:") {
				simrt.SetOrder(simrt.OrderNative, nil)
				simrt.SetClock(false, time.Time{}, nil)
				out := &sim.Outcome{Class: "repeat-dependent", Key: "determ:" + op.name, Detail: op.name + ": " + ref[i][len("INCONSISTENT: "):]}
				if c.Explain {
					out.Human = map[string]any{"values": desc, "operation": op.name}
				}
				return out
			}
		}
		// the library starts goroutines of its own (none on the tree as pinned):
		// their interleaving is one more thing nothing observable may depend on.
		// Each operation runs as the only caller under the task scheduler, twice,
		// with schedules drawn from the tape; the library's goroutines are tasks.
		if libGoroutines && !libBlocking {
			for pass := 0; pass < 2; pass++ {
				for i, op := range ops {
					if op.heavy {
						continue
					}
					st := simrt.NewSchedTape(t.State(), t.Remaining(), t.Replaying())
					simrt.SetOrder(simrt.OrderSorted, nil)
					var got string
					res := simrt.Run(st, 50_000_000, []func(){func() { got = safeOp(op) }})
					t.Absorb(st.Rec)
					t.SetState(st.State())
					c.St.Inc("op_executions")
					c.St.Add("fired_library_goroutine_schedules", 1)
					c.St.Add("fired_library_goroutine_switches", res.Switches)
					if res.Aborted {
						simrt.SetOrder(simrt.OrderNative, nil)
						simrt.SetClock(false, time.Time{}, nil)
						return &sim.Outcome{Class: "no-progress", Key: "determ:sched:" + op.name, Detail: op.name + ": the library's own goroutines did not finish under the simulated schedule"}
					}
					if got != ref[i] {
						simrt.SetOrder(simrt.OrderNative, nil)
						simrt.SetClock(false, time.Time{}, nil)
						out := &sim.Outcome{Class: "schedule-dependent", Key: "determ:sched:" + op.name,
							Detail: fmt.Sprintf("%s gives different output under another interleaving of the goroutines the library starts: %s", op.name, firstDiff(got, ref[i]))}
						if c.Explain {
							out.Human = map[string]any{"values": desc, "operation": op.name, "context_switches": res.Switches, "output_reference": clipS(ref[i], 3000), "output_this_schedule": clipS(got, 3000)}
						}
						return out
					}
				}
			}
		}
		orders := []orderSpec{{"reverse", simrt.OrderReverse}, {"rotate", simrt.OrderRotate}, {"random", simrt.OrderRandom}, {"random", simrt.OrderRandom},
			{"adjacent-swap", simrt.OrderSwap}, {"native", simrt.OrderNative}}
		for oi, o := range orders {
			for i, op := range ops {
				if op.heavy && oi > 0 {
					continue
				}
				churn(t)
				// one execution in eight runs with the garbage collector switched
				// off (as under GOGC=off): how much garbage lies around is part of
				// the process's state, not of the input
				gcOff := !op.heavy && t.Choose(8) == 0
				if gcOff {
					debug.SetGCPercent(-1)
					c.St.Inc("fired_collector_switched_off")
				}
				recBefore := len(t.Rec)
				_, _, before := simrt.OrderStats()
				simrt.SetOrder(o.mode, t)
				got := safeOp(op)
				simrt.SetOrder(simrt.OrderSorted, t)
				if gcOff {
					debug.SetGCPercent(100)
					runtime.GC()
				}
				_, _, after := simrt.OrderStats()
				c.St.Inc("op_executions")
				if after > before {
					c.St.Case(sim.Mix(sim.HashBytes([]byte(ref[i])), op.name+"/"+o.name, sim.HashBytes(u32bytes(t.Rec[recBefore:]))))
					c.St.Inc("executions_with_permuted_map")
					c.St.Inc("fired_map_order_permutation_" + o.name)
				}
				if got != ref[i] {
					// diagnose: is it the order, or does the output change from one
					// invocation to the next whatever the order (clock, addresses,
					// state left behind by an earlier operation)?
					again := safeOp(op)
					class, why := "order-dependent", fmt.Sprintf("under map order %q than under sorted order", o.name)
					if again != ref[i] {
						class, why = "repeat-dependent", "when invoked again under the same sorted map order (the simulated clock has jumped, the heap has moved and other operations - including a hostile program in its own interpreter - have run in between)"
					} else if gcOff {
						// same order as the reference, collector off again
						debug.SetGCPercent(-1)
						third := safeOp(op)
						debug.SetGCPercent(100)
						runtime.GC()
						if third != ref[i] {
							class, why = "gc-dependent", "when the garbage collector is switched off during the call (as under GOGC=off), map order being the same, than with the collector running"
						}
					}
					out := &sim.Outcome{Class: class, Key: "determ:" + op.name,
						Detail: fmt.Sprintf("%s gives different output %s: %s", op.name, why, firstDiff(got, ref[i]))}
					if c.Explain {
						out.Human = map[string]any{"values": desc, "operation": op.name, "order": o.name, "output_sorted_order": clipS(ref[i], 3000), "output_this_order": clipS(got, 3000)}
					}
					simrt.SetOrder(simrt.OrderNative, nil)
					simrt.SetClock(false, time.Time{}, nil)
					return out
				}
			}
		}
		simrt.SetOrder(simrt.OrderNative, nil)
		simrt.SetClock(false, time.Time{}, nil)

		// second process
		if helper != nil {
			hd, err := helper.digests(vt)
			if err != nil {
				fmt.Fprintln(os.Stderr, "helper process failed:", err)
				os.Exit(3)
			}
			c.St.Inc("cross_process_comparisons")
			c.St.Inc("fired_process_boundary")
			for i, op := range ops {
				if hd[op.name] != digest(ref[i]) {
					out := &sim.Outcome{Class: "process-dependent", Key: "determ:xproc:" + op.name,
						Detail: fmt.Sprintf("%s gives different output in a second process (other map hash seed and addresses, Go's native map order) than in this one", op.name)}
					if c.Explain {
						out.Human = map[string]any{"values": desc, "operation": op.name, "digest_here": digest(ref[i]), "digest_other_process": hd[op.name], "output_here": clipS(ref[i], 3000)}
					}
					return out
				}
			}
		}
		// per-site reach
		sitesN, _, _ := simrt.OrderStats()
		for id, n := range sitesN {
			name := fmt.Sprintf("site_%d", id)
			if s, ok := sitesByID[int(id)]; ok {
				name = "site_" + s
			}
			if c.St != nil {
				c.St.Counters[name] = n // cumulative per process: keep the latest value
			}
		}
		return nil
	}
	ck := &sim.Check{
		Prop: "C17", Harness: "h_determ", Level: "exploration",
		Rule:        "A run draws a font (up to 40 glyphs), metrics (up to 30 glyphs, several ligatures per glyph, kerning), a CMap file with 2-4 CMaps and a program; every operation (Font.Write x 4 formats, WritePDF, Metrics.Write, type1.Read of each written file, afm.Read, ReadCMap, Execute, the order-sensitive queries) runs under the canonical sorted map order with a frozen simulated clock, then under reverse, rotated, two random (Fisher-Yates from the tape), a single-adjacent-swap and Go's native order with a jumping clock and heap churn in between, and once more in a second OS process (other map hash seed, other addresses, another local time zone) under Go's native order; all outputs must be byte-identical. The map-order and clock seams are injected into a scratch copy of the current tree by tools/instrument (13 sites today; recomputed on every run). distinct_nontrivial counts distinct (reference output hash, operation, order mode, permutation draws) executions in which at least one map with >= 2 entries was iterated in a permuted order. Further operations: 6-25 look-alike fonts (same structure, shifted outlines) built afresh, written and dropped with collections in between; programs / CMap files run over their budget (the shared error value) four times; ReadCMap x40/x700 and type1.Read x12/x60 on the same bytes; fonts only a foreign producer writes (composites incl. 250-340 glyphs, lenIV 0-8, Subrs, fractional widths without .notdef, FontInfo keys differing in case, two names for one dictionary, non-numeric FontMatrix). If the instrumenter finds go statements in the library (none on the tree as pinned), every operation also runs twice as sole caller under the task scheduler with tape-drawn interleavings of the library's own goroutines; timers set by the library fire at once or never, by a draw.",
		Assume:      []string{"map iteration hidden inside dependencies and not reached through maps.Keys/Values (reflection) is outside the seam; the second-process repetition samples Go's native order for it", "PostScript forall over a dictionary is only used with an order-insensitive body", "metrics bounding boxes are well-formed (LL <= UR): rect.Extend is order-dependent for inverted boxes, which is outside the representable domain"},
		RealStub:    map[string]any{"real": []string{"all go-postscript packages, seam-instrumented copy of the current working tree (map range / maps.Keys order and time.Now routed through simrt)", "text/template, sort, x/exp/maps"}, "stub": []string{"map iteration order oracle", "clock", "heap churn"}},
		Batches:     []*sim.Batch{b},
		Probes:      []string{"executions_with_permuted_map", "cross_process_comparisons"},
		SimTimeUnit: "operation executions under a simulator-chosen map order (the library never reads the clock: 0 clock sites)", SimTimeCounters: []string{"op_executions"},
	}
	ck.Extra = func(st *sim.Stats) map[string]any {
		per := map[string]int64{}
		for k, v := range st.Counters {
			if strings.HasPrefix(k, "site_") {
				per[k[5:]] = v
			}
		}
		return map[string]any{"map_order_sites_permuted(sum of per-process counters)": per, "sites_found_by_instrumenter": len(sitesByID)}
	}
	return ck
}

func loadSites() map[int]string {
	out := map[int]string{}
	p := os.Getenv("VERIF_SITES")
	if p == "" {
		return out
	}
	b, err := os.ReadFile(p)
	if err != nil {
		return out
	}
	var ss []struct {
		ID   int    `json:"id"`
		Kind string `json:"kind"`
		Pos  string `json:"pos"`
		Func string `json:"func"`
	}
	if json.Unmarshal(b, &ss) != nil {
		return out
	}
	for _, s := range ss {
		if strings.HasPrefix(s.Kind, "maporder") {
			out[s.ID] = s.Pos + "(" + s.Func + ")"
		}
	}
	return out
}
