package harness

import (
	"fmt"
	"strings"

	"seehuhn.de/go/postscript/afm"
	"seehuhn.de/go/postscript/type1"

	"verif/dump"
	"verif/gen"
	"verif/sim"
)

var readFaultKinds = []sim.FaultKind{sim.FaultPersistent, sim.FaultPersistentData, sim.FaultTransient}

// oneReadFault runs the surface with one injected read fault and applies the
// oracle: a delivered fault must surface as a non-nil error; no panic; no
// unbounded reading.
func oneReadFault(in *Input, sch sim.Schedule, f sim.Fault, tape *sim.Tape, st *sim.Stats, explain bool) *sim.Outcome {
	r := sim.NewSimReader(in.Data, sch, f, tape)
	res, err, p := safeConsume(in.Surf, r.Reader(), nil)
	st.Add("sim_read_calls", int64(r.Reads))
	human := func() map[string]any {
		if !explain {
			return nil
		}
		return map[string]any{"surface": in.Surf.String(), "input": printable(in.Data), "input_desc": in.Desc, "schedule": sch.String(),
			"fault": fmt.Sprintf("%s at offset %d of %d, error value %q", f.Kind, f.At, len(in.Data), f.Err), "fault_delivered(a Read returned 0,err)": r.Delivered, "returned_error": dump.Err(err), "result": clipS(res, 400)}
	}
	key := fmt.Sprintf("fault:%s:%s", in.Surf, f.Kind)
	if p != nil {
		return &sim.Outcome{Class: "panic-under-fault", Key: key + ":panic", Detail: fmt.Sprintf("%s panicked with a %s read fault at offset %d: %v", in.Surf, f.Kind, f.At, p), Human: human()}
	}
	if r.NoProgress {
		return &sim.Outcome{Class: "no-progress", Key: key + ":no-progress", Detail: fmt.Sprintf("%s kept calling Read after the %s fault at offset %d", in.Surf, f.Kind, f.At), Human: human()}
	}
	if r.Delivered {
		st.Inc("fired_" + f.Kind.String())
		st.Case(sim.Mix(sim.HashBytes(in.Data), f.Kind.String(), uint64(f.At)))
		if err == nil {
			return &sim.Outcome{Class: "fault-swallowed", Key: key, Detail: fmt.Sprintf("%s returned no error although a Read failed (%s fault at offset %d of %d)", in.Surf, f.Kind, f.At, len(in.Data)), Human: human()}
		}
		if st != nil && err != nil {
			st.Print(sim.Mix(sim.HashBytes([]byte(err.Error())), in.Surf.String(), 0))
		}
	} else {
		st.Inc("fault_not_reached")
	}
	return nil
}

// transientDataApplies reports whether the "error arrives together with data"
// clause can be asserted for this input: consumers built on io.ReadFull (the
// PFB decoder, the one-byte container sniff) legitimately drop an error that
// arrives with the last byte they asked for.
func transientDataApplies(in *Input, at int) bool {
	switch in.Surf {
	case SurfPS, SurfCMap, SurfAFM:
		return true
	case SurfFont:
		return len(in.Data) > 0 && in.Data[0] != 0x80 && at > 1
	}
	return false
}

// oneTransientData injects an error that arrives together with valid bytes in
// exactly one Read.  A fault-free probe run with the identical chunking tells
// whether the library comes back for more input after that chunk; if it does,
// the library needed more than it had, so with the fault it must report the
// error instead of reading on.
func oneTransientData(in *Input, sch sim.Schedule, at int, st *sim.Stats, explain bool) *sim.Outcome {
	if at <= 0 || at > len(in.Data) || !transientDataApplies(in, at) {
		return nil
	}
	pr := sim.NewSimReader(in.Data, sch, sim.Fault{Kind: sim.FaultProbeData, At: at}, nil)
	_, _, pp := safeConsume(in.Surf, pr.Reader(), nil)
	if pp != nil || !pr.Capped || pr.ReadsAfterCap == 0 {
		st.Inc("fault_not_reached")
		return nil
	}
	r := sim.NewSimReader(in.Data, sch, sim.Fault{Kind: sim.FaultTransientData, At: at}, nil)
	res, err, p := safeConsume(in.Surf, r.Reader(), nil)
	st.Add("sim_read_calls", int64(r.Reads+pr.Reads))
	human := func() map[string]any {
		if !explain {
			return nil
		}
		return map[string]any{"surface": in.Surf.String(), "input": printable(in.Data), "input_desc": in.Desc, "schedule": sch.String(),
			"fault":                            fmt.Sprintf("one Read returned the bytes up to offset %d together with the injected error; later reads succeed", at),
			"probe_run_reads_after_that_chunk": pr.ReadsAfterCap, "faulty_run_reads_after_that_chunk": r.ReadsAfterCap, "returned_error": dump.Err(err), "result": clipS(res, 400)}
	}
	if p != nil {
		return &sim.Outcome{Class: "panic-under-fault", Key: "fault:" + in.Surf.String() + ":transient+data:panic", Detail: fmt.Sprintf("%s panicked when an error arrived with data at offset %d: %v", in.Surf, at, p), Human: human()}
	}
	st.Inc("fired_transient+data")
	st.Case(sim.Mix(sim.HashBytes(in.Data), "transient+data", uint64(at)))
	if err == nil {
		return &sim.Outcome{Class: "fault-swallowed", Key: "fault:" + in.Surf.String() + ":transient+data",
			Detail: fmt.Sprintf("%s returned no error although a Read reported the injected error together with the bytes up to offset %d and the library needed more input afterwards", in.Surf, at), Human: human()}
	}
	return nil
}

// expensiveInput reports whether reading the input runs into the reader's own
// operation budget (millions of operations per call); such inputs are faulted
// at a handful of offsets only.
func expensiveInput(refErr string) bool {
	return strings.Contains(refErr, "ErrExecutionLimitExceeded")
}

func offsetsFor(t *sim.Tape, in *Input, all bool, nsample int) []int {
	n := len(in.Data)
	if all {
		out := make([]int, 0, n+1)
		for i := 0; i <= n; i++ {
			out = append(out, i)
		}
		return out
	}
	seen := map[int]bool{}
	var out []int
	add := func(i int) {
		if i >= 0 && i <= n && !seen[i] {
			seen[i] = true
			out = append(out, i)
		}
	}
	for _, i := range []int{0, 1, 2, 3, n - 2, n - 1, n} {
		add(i)
	}
	for _, m := range in.Marks {
		for d := -2; d <= 2; d++ {
			add(m + d)
		}
	}
	// where buffers of the usual sizes fill up exactly (once, and after
	// doubling from the usual starting sizes)
	for _, b := range []int{256, 512, 1024, 1536, 2048, 3072, 3584, 4096, 7168, 7680, 8192, 15872, 16384, 32768, 65536} {
		for d := -1; d <= 1; d++ {
			add(b + d)
		}
	}
	for i := 0; i < nsample; i++ {
		add(t.Choose(n + 1))
	}
	return out
}

type writeTarget struct {
	name  string
	write func(w *sim.SimWriter) error
}

func genWriteTarget(t *sim.Tape) writeTarget {
	if t.Bool(1, 4) {
		m := gen.GenMetrics(t, 16)
		return writeTarget{"Metrics.Write(" + m.FontName + ")", func(w *sim.SimWriter) error { return m.Write(w) }}
	}
	f := gen.GenFont(t, 10)
	if t.Bool(1, 8) {
		// a large font: the encrypted section spans many 512-byte blocks and
		// hundreds of hex lines, so block and line boundaries meet
		f = gen.GenFont(t, 60)
		for len(f.Glyphs) < 70 {
			f.Glyphs[fmt.Sprintf("big%d", len(f.Glyphs))] = gen.GenGlyph(t, true)
		}
	} else if t.Bool(1, 6) {
		// many glyphs with charstrings longer than one 512-byte eexec block, and
		// names of varying length so that their starts sweep all alignments
		f = gen.GenFont(t, 3)
		for i := 0; i < 40; i++ {
			f.Glyphs[fmt.Sprintf("long%s%d", strings.Repeat("x", t.Choose(24)), i)] = gen.LongGlyph(t)
		}
		k := 2 + 2*t.Choose(2) // binary eexec or the PDF form: few, block-sized write calls
		if k == 4 {
			return writeTarget{"Font.WritePDF(long charstrings, " + gen.DescribeFont(f) + ")", func(w *sim.SimWriter) error { _, _, err := f.WritePDF(w); return err }}
		}
		return writeTarget{"Font.Write(binary, long charstrings, " + gen.DescribeFont(f) + ")", func(w *sim.SimWriter) error {
			return f.Write(w, &type1.WriterOptions{Format: type1.FormatBinary})
		}}
	}
	k := t.Choose(5)
	if k == 4 {
		return writeTarget{"Font.WritePDF(" + gen.DescribeFont(f) + ")", func(w *sim.SimWriter) error { _, _, err := f.WritePDF(w); return err }}
	}
	format := gen.FontFormats[k]
	return writeTarget{fmt.Sprintf("Font.Write(format %d, %s)", format, gen.DescribeFont(f)), func(w *sim.SimWriter) error {
		return f.Write(w, &type1.WriterOptions{Format: format})
	}}
}

func oneWriteFault(tg writeTarget, wf sim.WFault, st *sim.Stats, explain bool) *sim.Outcome {
	w := sim.NewSimWriter(wf)
	var err error
	var pv any
	func() {
		defer func() {
			if p := recover(); p != nil {
				pv = p
			}
		}()
		err = tg.write(w)
	}()
	st.Add("sim_write_calls", int64(w.Calls))
	human := func() map[string]any {
		if !explain {
			return nil
		}
		return map[string]any{"target": tg.name, "fault": fmt.Sprintf("%s at %d", wf.Kind, wf.At), "write_calls_seen": w.Calls, "calls_that_failed": w.Fired, "bytes_accepted": len(w.Buf), "returned_error": dump.Err(err)}
	}
	key := "wfault:" + wf.Kind.String()
	if pv != nil {
		return &sim.Outcome{Class: "panic-under-fault", Key: key + ":panic", Detail: fmt.Sprintf("%s panicked under write fault %s at %d: %v", tg.name, wf.Kind, wf.At, pv), Human: human()}
	}
	if w.Fired > 0 {
		st.Inc("fired_" + wf.Kind.String())
		st.Case(sim.Mix(sim.HashBytes([]byte(tg.name)), wf.Kind.String(), uint64(wf.At)))
		if err == nil {
			return &sim.Outcome{Class: "write-fault-swallowed", Key: key, Detail: fmt.Sprintf("%s returned nil although write call failed (%s at %d)", tg.name, wf.Kind, wf.At), Human: human()}
		}
	}
	return nil
}

// C13 builds the check for property C13.
func C13() *sim.Check {
	readSurfaces := []Surface{SurfPS, SurfPS, SurfCMap, SurfFont, SurfFont, SurfAFM, SurfPFB}

	reads := &sim.Batch{Name: "read-faults", Quick: 3000, Thorough: 200_000}
	reads.Run = func(c *sim.RunCtx) *sim.Outcome {
		t := c.T
		in := genInput(t, readSurfaces, c.St)
		_, rerr, ok := refResult(in)
		if !ok {
			c.St.Inc("skipped_reference_panics(C01)")
			return nil
		}
		nOff := 24
		if expensiveInput(rerr) {
			nOff, in.Marks = 2, nil
			c.St.Inc("expensive_inputs_sampled_only")
		}
		c.St.Inc("inputs_" + in.Surf.String())
		sch := gen.GenSchedule(t, len(in.Data), in.Surf == SurfFont)
		if sch.Mode == sim.ChunkRandom {
			sch.Mode, sch.K = sim.ChunkFixed, 1+t.Choose(9)
		}
		ferr := sim.Pick(t, sim.FaultErrors)
		for _, off := range offsetsFor(t, in, false, nOff) {
			for _, k := range readFaultKinds {
				if out := oneReadFault(in, sch, sim.Fault{Kind: k, At: off, Err: ferr}, nil, c.St, c.Explain); out != nil {
					return out
				}
				c.St.Inc("fault_runs")
			}
			if out := oneTransientData(in, sch, off, c.St, c.Explain); out != nil {
				return out
			}
		}
		c.St.Sample(map[string]any{"surface": in.Surf.String(), "input_desc": in.Desc, "bytes": len(in.Data), "schedule": sch.String()})
		return nil
	}

	// every offset of smaller inputs
	every := &sim.Batch{Name: "read-faults-every-offset", Quick: 120, Thorough: 3_000}
	every.Run = func(c *sim.RunCtx) *sim.Outcome {
		t := c.T
		in := genInput(t, readSurfaces, c.St)
		if len(in.Data) > 4096 {
			c.St.Inc("every_offset_skipped_large")
			return nil
		}
		if _, rerr, ok := refResult(in); !ok || expensiveInput(rerr) {
			return nil
		}
		sch := gen.GenSchedule(t, len(in.Data), in.Surf == SurfFont)
		if sch.Mode == sim.ChunkRandom {
			sch.Mode, sch.K = sim.ChunkFixed, 1+t.Choose(9)
		}
		c.St.Inc("inputs_with_every_offset")
		ferr := sim.Pick(t, sim.FaultErrors)
		for _, off := range offsetsFor(t, in, true, 0) {
			for _, k := range readFaultKinds {
				if out := oneReadFault(in, sch, sim.Fault{Kind: k, At: off, Err: ferr}, nil, c.St, c.Explain); out != nil {
					return out
				}
				c.St.Inc("fault_runs")
			}
			if out := oneTransientData(in, sch, off, c.St, c.Explain); out != nil {
				return out
			}
		}
		return nil
	}

	seeks := &sim.Batch{Name: "seek-faults", Quick: 3000, Thorough: 60_000}
	seeks.Run = func(c *sim.RunCtx) *sim.Outcome {
		t := c.T
		in := genInput(t, []Surface{SurfFont}, c.St)
		if in.Surf != SurfFont {
			return nil
		}
		sch := gen.GenSchedule(t, len(in.Data), false)
		if sch.Mode == sim.ChunkRandom {
			sch.Mode, sch.K = sim.ChunkFixed, 1+t.Choose(9)
		}
		sch.Seekable = true
		for call := 0; call < 4; call++ {
			f := sim.Fault{Kind: sim.FaultSeek, At: call}
			r := sim.NewSimReader(in.Data, sch, f, nil)
			_, err, p := safeConsume(in.Surf, r.Reader(), nil)
			c.St.Add("sim_seek_calls", int64(r.Seeks))
			if p != nil {
				return &sim.Outcome{Class: "panic-under-fault", Key: "fault:seek:panic", Detail: fmt.Sprintf("type1.Read panicked when Seek call #%d failed: %v", call, p)}
			}
			if r.Delivered {
				c.St.Inc("fired_seek")
				c.St.Case(sim.Mix(sim.HashBytes(in.Data), "seek", uint64(call)))
				if err == nil {
					out := &sim.Outcome{Class: "fault-swallowed", Key: "fault:type1.Read:seek", Detail: fmt.Sprintf("type1.Read returned no error although Seek call #%d failed", call)}
					if c.Explain {
						out.Human = map[string]any{"input": printable(in.Data), "input_desc": in.Desc, "failed_seek_call": call}
					}
					return out
				}
			}
		}
		return nil
	}

	trunc := &sim.Batch{Name: "truncation", Quick: 2500, Thorough: 6_000}
	trunc.Run = func(c *sim.RunCtx) *sim.Outcome {
		t := c.T
		var in *Input
		for try := 0; ; try++ {
			in = genInput(t, []Surface{SurfFont, SurfFont, SurfCMap}, c.St)
			if in.Complete && !in.Multi || try > 4 {
				break
			}
		}
		if !in.Complete || in.Multi {
			return nil
		}
		full, fullErr, ok := refResult(in)
		if !ok || fullErr != "err=nil" {
			c.St.Inc("truncation_skipped_unreadable_input")
			return nil
		}
		sch := gen.GenSchedule(t, len(in.Data), in.Surf == SurfFont)
		if sch.Mode == sim.ChunkRandom {
			sch.Mode, sch.K = sim.ChunkFixed, 1+t.Choose(9)
		}
		all := c.Tier == "thorough" || len(in.Data) <= 600
		if all {
			c.St.Inc("inputs_truncated_at_every_offset")
		}
		for _, off := range offsetsFor(t, in, all, 48) {
			if off >= len(in.Data) {
				continue
			}
			r := sim.NewSimReader(in.Data, sch, sim.Fault{Kind: sim.FaultTruncate, At: off}, nil)
			res, err, p := safeConsume(in.Surf, r.Reader(), nil)
			c.St.Inc("fired_truncate")
			c.St.Case(sim.Mix(sim.HashBytes(in.Data), "trunc", uint64(off)))
			human := func() map[string]any {
				if !c.Explain {
					return nil
				}
				return map[string]any{"surface": in.Surf.String(), "input": printable(in.Data), "input_desc": in.Desc, "truncated_at": off, "of": len(in.Data), "schedule": sch.String(),
					"result_of_truncated_file": clipS(res, 1500), "result_of_whole_file": clipS(full, 1500)}
			}
			if p != nil {
				return &sim.Outcome{Class: "panic-under-fault", Key: "trunc:panic", Detail: fmt.Sprintf("%s panicked on a file truncated at %d: %v", in.Surf, off, p), Human: human()}
			}
			if err != nil {
				c.St.Inc("truncation_gave_error")
				continue
			}
			c.St.Inc("truncation_gave_complete_result")
			if res != full {
				return &sim.Outcome{Class: "partial-result", Key: "trunc:" + in.Surf.String(),
					Detail: fmt.Sprintf("%s: file truncated at offset %d of %d was accepted without error but the result is not the complete one: %s", in.Surf, off, len(in.Data), firstDiff(res, full)), Human: human()}
			}
		}
		return nil
	}

	writes := &sim.Batch{Name: "write-faults", Quick: 1500, Thorough: 20_000}
	writes.Run = func(c *sim.RunCtx) *sim.Outcome {
		t := c.T
		tg := genWriteTarget(t)
		clean := sim.NewSimWriter(sim.WFault{})
		if err := tg.write(clean); err != nil {
			c.St.Inc("write_target_outside_domain")
			return nil
		}
		W, Z := clean.Calls, len(clean.Buf)
		c.St.Inc("write_targets")
		all := c.Tier == "thorough" || W <= 120
		var idx []int
		if all {
			for i := 0; i < W; i++ {
				idx = append(idx, i)
			}
			c.St.Inc("targets_with_every_write_call")
		} else {
			idx = append(idx, 0, 1, 2, W-3, W-2, W-1)
			for i := 0; i < 60; i++ {
				idx = append(idx, t.Choose(W))
			}
		}
		for _, i := range idx {
			if i < 0 || i >= W {
				continue
			}
			for _, k := range []sim.WFaultKind{sim.WFailOnce, sim.WShort, sim.WFailFrom} {
				if out := oneWriteFault(tg, sim.WFault{Kind: k, At: i}, c.St, c.Explain); out != nil {
					return out
				}
				c.St.Inc("write_fault_runs")
			}
		}
		nb := 48
		if c.Tier == "thorough" {
			nb = 400
		}
		for i := 0; i < nb && Z > 0; i++ {
			b := t.Choose(Z)
			if i < 4 {
				b = []int{0, 1, Z - 1, Z / 2}[i]
			}
			if out := oneWriteFault(tg, sim.WFault{Kind: sim.WDiskFull, At: b}, c.St, c.Explain); out != nil {
				return out
			}
			c.St.Inc("write_fault_runs")
		}
		c.St.Sample(map[string]any{"write_target": tg.name, "write_calls": W, "bytes": Z})
		return nil
	}

	// write-alignment: a writer that collects its output into blocks fails (or
	// forgets to check) where a block boundary meets the end of the output or
	// the start of a section.  One fixed value per kind, its length swept byte by
	// byte through a padded text field, so that every alignment of every later
	// boundary relative to any block size up to the sweep length occurs; faults
	// at the first two and the last four write calls of each length.
	alignBase := func() (*afm.Metrics, *type1.Font) {
		t := sim.ReplayTape([]uint32{3, 1, 4, 1, 5, 9, 2, 6, 5, 3, 5, 8, 9, 7, 9, 3, 2, 3, 8, 4, 6})
		m := gen.GenMetrics(t, 24)
		for i := 0; len(m.Glyphs) < 60; i++ {
			m.Glyphs[fmt.Sprintf("pad%d", i)] = &afm.GlyphInfo{WidthX: float64(300 + i)}
		}
		f := gen.GenFont(sim.ReplayTape([]uint32{2, 7, 1, 8, 2, 8, 1, 8, 2, 8, 4, 5, 9}), 12)
		if f.FontInfo == nil {
			f.FontInfo = &type1.FontInfo{}
		}
		return m, f
	}
	const alignKinds = 6 // metrics, 4 font formats, WritePDF
	alignLens := func(tier string) int {
		if tier == "thorough" {
			return 4400
		}
		return 1100
	}
	align := &sim.Batch{Name: "write-alignment", Quick: 4400 + 5*1100, Thorough: 6 * 4400, Enumerated: true}
	align.Run = func(c *sim.RunCtx) *sim.Outcome {
		// metrics get the long sweep in both tiers (few, cheap write calls once a
		// writer buffers; one line per call on the tree as pinned)
		kind, L := 0, c.Index
		if c.Index >= 4400 {
			n := alignLens(c.Tier)
			kind, L = 1+(c.Index-4400)/n, (c.Index-4400)%n
		}
		if kind >= alignKinds {
			return nil
		}
		m, f := alignBase()
		pad := strings.Repeat("x", L)
		var tg writeTarget
		switch kind {
		case 0:
			m.FullName = "P" + pad
			tg = writeTarget{fmt.Sprintf("Metrics.Write(60 glyphs, FullName of %d bytes)", L+1), func(w *sim.SimWriter) error { return m.Write(w) }}
		case 5:
			f.FontInfo.FullName = "P" + pad
			tg = writeTarget{fmt.Sprintf("Font.WritePDF(FullName of %d bytes)", L+1), func(w *sim.SimWriter) error { _, _, err := f.WritePDF(w); return err }}
		default:
			f.FontInfo.FullName = "P" + pad
			format := gen.FontFormats[kind-1]
			tg = writeTarget{fmt.Sprintf("Font.Write(format %d, FullName of %d bytes)", format, L+1), func(w *sim.SimWriter) error {
				return f.Write(w, &type1.WriterOptions{Format: format})
			}}
		}
		w0 := sim.NewSimWriter(sim.WFault{})
		if err := tg.write(w0); err != nil {
			c.St.Inc("alignment_targets_outside_the_writers_domain")
			return nil
		}
		W := w0.Calls
		c.St.Inc("alignment_lengths")
		seen := map[int]bool{}
		for _, i := range []int{0, 1, W - 4, W - 3, W - 2, W - 1} {
			if i < 0 || i >= W || seen[i] {
				continue
			}
			seen[i] = true
			for _, k := range []sim.WFaultKind{sim.WFailOnce, sim.WShort, sim.WFailFrom} {
				if out := oneWriteFault(tg, sim.WFault{Kind: k, At: i}, c.St, c.Explain); out != nil {
					return out
				}
				c.St.Inc("write_fault_runs")
			}
		}
		return nil
	}

	return &sim.Check{
		Prop: "C13", Harness: "h_fault", Level: "fault_enumeration",
		Rule:        "read-faults: for a drawn input (program, CMap, font in 4 formats / re-laid-out, AFM, PFB) and base chunking, a persistent fault (with and without data arriving in the failing call) a transient one-shot fault, and a one-shot error arriving together with valid bytes (asserted where a fault-free probe run with identical chunking shows the library comes back for more input; not for io.ReadFull-based consumers) are injected at offsets 0,1,2,3,len-2..len, every structural boundary +-2 and 24 random offsets; read-faults-every-offset does the same at EVERY offset 0..len of inputs <= 4096 bytes; seek-faults fails Seek call #0..#3 of the seekable type1.Read path; truncation cuts complete single-font / single-CMap files at every offset (thorough; sampled + boundaries in quick for files > 600 bytes); write-faults fails one call (fail-once), short-writes one call, fails from a call on, at every write-call index (thorough; all for <= 120 calls, sampled otherwise) and runs out of disk at sampled byte budgets, for Font.Write x 4 formats, Font.WritePDF and Metrics.Write; write-alignment sweeps the output length of one fixed metrics value and one fixed font byte by byte (0..4400 for metrics, 0..1100 quick / 0..4400 thorough for each font format and WritePDF) and fails / short-writes the first two and the last four write calls at each length. Oracle: a fault counts as delivered only when a Read/Seek/Write actually returned the injected error with n==0 (reads) or at all (writes); delivered => the public call returns a non-nil error; never a panic, never unbounded reading; truncated file => error or dump equal to the whole file's. distinct_nontrivial = distinct (input hash, fault kind, position) with the fault delivered.",
		Assume:      []string{"the identity and text of the returned error are not checked", "io.ReadFull legitimately drops an error that arrives with the last byte it needed, hence the delivered rule", "multi-CMap files are excluded from the truncation clause (a prefix defining the first CMap is a complete answer to a different question; C17 covers which one is returned)"},
		RealStub:    map[string]any{"real": []string{"all readers and writers of /repo (unmodified)", "text/template, bufio.Scanner, io.ReadFull, fmt.Fprintf"}, "stub": []string{"io.Reader / io.ReadSeeker (SimReader with fault plan)", "io.Writer (SimWriter with fault plan)"}},
		Batches:     []*sim.Batch{reads, seeks, trunc, writes, align, every},
		SimTimeUnit: "simulated Read, Seek and Write calls served to the library", SimTimeCounters: []string{"sim_read_calls", "sim_seek_calls", "sim_write_calls"},
		Probes: []string{"fired_persistent", "fired_persistent+data", "fired_transient", "fired_transient+data", "fired_seek", "fired_truncate", "fired_fail-once", "fired_short-once", "fired_fail-from", "fired_disk-full",
			"truncation_gave_error", "truncation_gave_complete_result", "inputs_with_every_offset", "targets_with_every_write_call"},
	}
}

var _ = afm.Read
