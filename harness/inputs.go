package harness

import (
	"bytes"
	"fmt"
	"io"
	"regexp"
	"sort"
	"strconv"

	"seehuhn.de/go/postscript"
	"seehuhn.de/go/postscript/afm"
	"seehuhn.de/go/postscript/pfb"
	"seehuhn.de/go/postscript/type1"

	"verif/dump"
	"verif/gen"
	"verif/sim"
)

// Surface is one public reading entry point of the library.
type Surface int

const (
	SurfPS Surface = iota
	SurfCMap
	SurfFont
	SurfAFM
	SurfPFB
	nSurf
)

func (s Surface) String() string {
	return [...]string{"Interpreter.Execute", "ReadCMap", "type1.Read", "afm.Read", "pfb.Decode"}[s]
}

// Input is one generated input for a surface.
type Input struct {
	Surf Surface
	Data []byte
	Desc string
	// Marks are byte offsets of structural interest (mode switches, headers).
	Marks []int
	// Complete is set for Type 1 / CMap files that are whole, well-formed files
	// (the truncation clause of C13 applies to them).
	Complete bool
	// Multi: CMap file defining several CMaps.
	Multi bool
	Prog  *gen.PSProg
	// Offset: bytes of unrelated data before the input; the reader is handed
	// over positioned at Offset (seekable sources only).
	Offset int
}

const psSafetyBudget = 20000

// consume runs the surface's public call on r and returns a canonical dump of
// (result, error).  bufs yields caller buffer sizes for pfb.Decode.
func consume(s Surface, r io.Reader, bufs func() int) (res string, err error) {
	switch s {
	case SurfPS:
		in := postscript.NewInterpreter()
		in.MaxOps = psSafetyBudget
		err = in.Execute(r)
		return dump.Interp(in), err
	case SurfCMap:
		d, e := postscript.ReadCMap(r)
		if d == nil {
			return "nil", e
		}
		return dump.Object(d), e
	case SurfFont:
		f, e := type1.Read(r)
		return dump.Font(f), e
	case SurfAFM:
		m, e := afm.Read(r)
		return dump.Metrics(m), e
	case SurfPFB:
		d := pfb.Decode(r)
		var out []byte
		for calls := 0; ; calls++ {
			k := 512
			if bufs != nil {
				k = bufs()
			}
			buf := make([]byte, k)
			n, e := d.Read(buf)
			out = append(out, buf[:n]...)
			if e != nil {
				return fmt.Sprintf("%x", out), e
			}
			if calls > 4*len(out)+100000 {
				return fmt.Sprintf("%x", out), io.ErrNoProgress
			}
		}
	}
	panic("unknown surface")
}

// safeConsume is consume with panics turned into a flag.
func safeConsume(s Surface, r io.Reader, bufs func() int) (res string, err error, panicked any) {
	defer func() {
		if p := recover(); p != nil {
			panicked = p
		}
	}()
	res, err = consume(s, r, bufs)
	return
}

// genInput draws an input for one of the allowed surfaces.
func genInput(t *sim.Tape, allowed []Surface, st *sim.Stats) *Input {
	s := sim.Pick(t, allowed)
	in := &Input{Surf: s}
	switch s {
	case SurfPS:
		o := gen.PSOpts{MaxTokens: 70, Files: t.Bool(1, 2), Stop: t.Bool(1, 4), DSC: t.Bool(1, 2), Errors: 8, MaxAlloc: 600, Hostile: t.Bool(1, 8)}
		if o.Files && t.Bool(1, 2) {
			in.Prog = gen.GenPSWithEexec(t, o)
		} else {
			in.Prog = gen.GenPS(t, o)
		}
		in.Data = in.Prog.Src
		// padding pushes interesting tokens across the scanner's buffer boundary
		if t.Bool(1, 6) {
			pad := bytes.Repeat([]byte(" "), 480+t.Choose(64))
			if t.Bool(1, 2) {
				pad = append([]byte("% padding comment "), bytes.Repeat([]byte("x"), 470+t.Choose(64))...)
				pad = append(pad, '\n')
			}
			in.Data = append(pad, in.Data...)
			in.Marks = append(in.Marks, 512)
		}
		if i := bytes.Index(in.Data, []byte("eexec")); i >= 0 {
			in.Marks = append(in.Marks, i+5, i+6, i+8, i+10)
		}
		// every CR LF pair: a read boundary between the two bytes is the classic
		// place for look-ahead mistakes
		for i := 0; i+1 < len(in.Data) && len(in.Marks) < 40; i++ {
			if in.Data[i] == '\r' && in.Data[i+1] == '\n' {
				in.Marks = append(in.Marks, i+1)
			}
		}
		for off := 0; len(in.Marks) < 60; {
			i := bytes.Index(in.Data[off:], []byte("%%"))
			if i < 0 {
				break
			}
			in.Marks = append(in.Marks, off+i+1, off+i+2) // inside %% / %%+ / %!
			off += i + 2
		}
		if i := bytes.Index(in.Data, []byte("readstring")); i >= 0 {
			in.Marks = append(in.Marks, i+10, i+11)
		}
		in.Desc = "program"
	case SurfCMap:
		if t.Bool(1, 8) {
			in.Data = gen.GenCMapMisuse(t)
			in.Desc = "CMap file misusing the CIDInit operators"
			break
		}
		n := 1
		if t.Bool(1, 5) {
			n = 2 + t.Choose(3)
			in.Multi = true
		}
		in.Data = gen.GenCMapFile(t, n)
		in.Complete = true
		in.Desc = fmt.Sprintf("CMap file with %d CMaps", n)
		if i := bytes.Index(in.Data, []byte("defineresource")); i >= 0 {
			in.Marks = append(in.Marks, i, i+14)
		}
	case SurfFont:
		if t.Bool(1, 7) {
			if file, desc := gen.SeacFont(t); file != nil {
				in.Data, in.Desc, in.Complete = file, desc, true
				break
			}
		}
		if t.Bool(1, 8) {
			// a whole font in a few hundred bytes
			in.Data, in.Desc, in.Complete = gen.TinyFont(t), "hand-written tiny font", true
			in.Marks = append(in.Marks, 1, 2, 3, len(in.Data)-1, min(len(in.Data), 512), min(len(in.Data), 511))
			break
		}
		if t.Bool(1, 8) {
			if file, desc := gen.AltLayoutFont(t, 8); file != nil {
				in.Data, in.Desc, in.Complete = file, desc, true
				if i := bytes.Index(file, []byte("/CharStrings get begin")); i >= 0 {
					in.Marks = append(in.Marks, i+22, i+40, i+80)
				}
				break
			}
		}
		f := gen.GenFont(t, 14)
		if t.Choose(6) == 0 {
			// one or two charstrings longer than any buffer a reader is likely
			// to have (0.7-2 kB each)
			for i := 1 + t.Choose(2); i > 0; i-- {
				f.Glyphs[fmt.Sprintf("long%d", i)] = gen.LongGlyph(t)
			}
		}
		format := sim.Pick(t, gen.FontFormats)
		expensive := t.Choose(1500) == 0
		data, err := gen.FontFile(f, format)
		if err != nil {
			// outside the writer's domain: fall back to a tiny program
			in.Surf = SurfPS
			in.Data = []byte("1 2 add")
			in.Desc = "fallback"
			return in
		}
		in.Desc = fmt.Sprintf("%s, format %d", gen.DescribeFont(f), format)
		if expensive && format != type1.FormatPFB {
			// a font program that needs more operations than the reader's budget
			// (3 million): rare, each read costs a few hundred milliseconds
			if i := bytes.IndexByte(data, '\n'); i > 0 {
				data = append(append(append([]byte{}, data[:i+1]...), "1 1 1200000 {pop} for\n"...), data[i+1:]...)
				in.Desc += ", with a 4.8-million-operation prologue"
				st.Inc("fonts_beyond_the_readers_budget")
			}
		}
		if t.Bool(1, 2) {
			data = gen.Relayout(t, data, format)
			in.Desc += ", re-laid-out"
			st.Inc("fonts_relaid_out")
		}
		in.Data = data
		in.Complete = true
		if i := bytes.Index(data, []byte("eexec")); i >= 0 {
			in.Marks = append(in.Marks, i+5, i+6, i+7, i+8, i+10)
		}
		if i := bytes.Index(data, []byte(" RD ")); i >= 0 {
			in.Marks = append(in.Marks, i+3, i+4, i+5)
		}
		// both ends of the binary strings (the longest ones first: they span
		// buffer boundaries)
		in.Marks = append(in.Marks, rdStringBounds(data)...)
		if len(data) > 0 && data[0] == 0x80 {
			in.Marks = append(in.Marks, 1, 2, 5, 6)
			// later segment headers
			off := 0
			for off+6 <= len(data) && data[off] == 0x80 && data[off+1] != 3 {
				n := int(data[off+2]) | int(data[off+3])<<8 | int(data[off+4])<<16 | int(data[off+5])<<24
				off += 6 + n
				in.Marks = append(in.Marks, off, off+1, off+3, off+6)
			}
		}
		if i := bytes.Index(data, []byte("closefile")); i >= 0 {
			in.Marks = append(in.Marks, i+9, i+10)
		}
		if i := bytes.Index(data, []byte("cleartomark")); i >= 0 {
			in.Marks = append(in.Marks, i, i+11)
		}
	case SurfAFM:
		m := gen.GenMetrics(t, 20)
		if t.Choose(40) == 0 {
			// a metrics file of more than a megabyte (tens of thousands of
			// kerning pairs, as CJK fonts have them)
			var sb bytes.Buffer
			sb.Write(bytes.TrimSuffix(bytes.TrimSuffix(gen.AFMRelayout(t, m), []byte("EndFontMetrics\r\n")), []byte("EndFontMetrics\n")))
			n := 45000 + t.Choose(30000)
			fmt.Fprintf(&sb, "StartKernData\nStartKernPairs %d\n", n)
			for i := 0; i < n; i++ {
				fmt.Fprintf(&sb, "KPX glyph%05d other%05d %d\n", i, (i*7)%n, -(i % 90))
			}
			sb.WriteString("EndKernPairs\nEndKernData\nEndFontMetrics\n")
			in.Data = sb.Bytes()
			in.Desc = fmt.Sprintf("AFM (harness layout) with %d kerning pairs, %d bytes", n, sb.Len())
			in.Marks = append(in.Marks, 1<<20, 1<<20+1, len(in.Data)-1)
			break
		}
		if t.Bool(1, 2) {
			in.Data = gen.AFMRelayout(t, m)
			in.Desc = "AFM (harness layout)"
		} else {
			var buf bytes.Buffer
			m.Write(&buf)
			in.Data = buf.Bytes()
			in.Desc = "AFM (library layout)"
		}
	case SurfPFB:
		p, an := gen.GenPFB(t, 6, 700, gen.PFBShortBinary, gen.PFBShortText, gen.PFBBadHeader, gen.PFBPartialHeader)
		in.Data = p.Bytes()
		in.Desc = fmt.Sprintf("PFB stream, %d segments, anomaly %d", len(p.Segs), an)
		off := 0
		for _, sg := range p.Segs {
			in.Marks = append(in.Marks, off+1, off+2, off+6)
			off += 6 + len(sg.Data)
		}
	}
	// damaged variants: the error (or result) must not depend on delivery either
	if in.Surf != SurfPFB && t.Bool(1, 6) && len(in.Data) > 0 {
		in.Complete = false
		d := append([]byte{}, in.Data...)
		switch t.Choose(3) {
		case 0:
			cut := t.Choose(len(d))
			if len(in.Marks) > 0 && t.Bool(1, 2) {
				// just behind a structural boundary (eexec, a header, RD ...)
				cut = max(0, min(len(d), sim.Pick(t, in.Marks)+t.Range(-1, 4)))
			}
			d = d[:cut]
			in.Desc += ", truncated"
		case 1:
			d[t.Choose(len(d))] ^= byte(1 + t.Choose(255))
			in.Desc += ", one byte damaged"
		default:
			i := t.Choose(len(d))
			d = append(d[:i], d[min(len(d), i+1+t.Choose(8)):]...)
			in.Desc += ", bytes deleted"
		}
		in.Data = d
		in.Marks = nil
	}
	// what transport and tools put in front of a file: byte order marks, blank
	// lines, a printer job header, a stray control byte.  Whatever a reader
	// makes of such a file, it has to make the same of it under every delivery.
	if t.Choose(25) == 0 {
		pre := [][]byte{{0xEF, 0xBB, 0xBF}, {0xFE, 0xFF}, {0xFF, 0xFE}, {0x04}, {0x00}, []byte("\x1b%-12345X"), []byte("\n"), []byte("\r\n\r\n"), []byte(" "),
			bytes.Repeat([]byte(" "), 1+t.Choose(40)), bytes.Repeat([]byte("\n"), 31+t.Choose(3)), []byte("\t \n")}[t.Choose(12)]
		in.Data = append(append([]byte{}, pre...), in.Data...)
		for i := range in.Marks {
			in.Marks[i] += len(pre)
		}
		for k := 0; k <= len(pre)+1; k++ {
			in.Marks = append(in.Marks, k)
		}
		in.Complete = false
		in.Desc += fmt.Sprintf(", %d-byte prefix %q", len(pre), pre[:min(len(pre), 12)])
	}
	return in
}

var rdString = regexp.MustCompile(`(\d+) RD `)

// rdStringBounds returns the file offsets at which the `n RD <n bytes>` binary
// strings of a font program begin and end - in clear text, or inside a binary
// eexec section (which is decrypted to find them; encryption keeps offsets).
// At most four strings, longest first.
func rdStringBounds(data []byte) []int {
	base, text := 0, data
	if i := bytes.Index(data, []byte("currentfile eexec")); i >= 0 && i+18 < len(data) {
		rest := data[i+18:]
		hexLike := true
		for _, b := range rest[:min(len(rest), 4)] {
			if !(b >= '0' && b <= '9' || b >= 'a' && b <= 'f' || b >= 'A' && b <= 'F') {
				hexLike = false
			}
		}
		if hexLike {
			return nil
		}
		base, text = i+18, gen.EexecDecrypt(rest)
	}
	type span struct{ a, b int }
	var spans []span
	for _, m := range rdString.FindAllSubmatchIndex(text, -1) {
		n, err := strconv.Atoi(string(text[m[2]:m[3]]))
		if err != nil || m[1]+n > len(text) {
			continue
		}
		spans = append(spans, span{base + m[1], base + m[1] + n})
	}
	sort.Slice(spans, func(i, j int) bool { return spans[i].b-spans[i].a > spans[j].b-spans[j].a })
	var out []int
	for i, sp := range spans {
		if i >= 4 {
			break
		}
		out = append(out, sp.a, sp.b)
	}
	return out
}
