package harness

import (
	"bufio"
	"bytes"
	"encoding/json"
	"fmt"
	"os"
	"os/exec"
	"regexp"
	"sort"
	"strings"
	"sync"
	"time"

	"seehuhn.de/go/postscript"
	"seehuhn.de/go/postscript/afm"
	"seehuhn.de/go/postscript/pfb"
	"seehuhn.de/go/postscript/psenc"
	"seehuhn.de/go/postscript/type1"
	"seehuhn.de/go/postscript/type1/names"

	"verif/dump"
	"verif/gen"
	"verif/sim"
	"verif/simrt"
)

// concOp is one library operation a task performs on objects it owns.
type concOp struct {
	Name string
	run  func() string
}

var hostileOpts = gen.PSOpts{MaxTokens: 50, Errors: 5, MaxAlloc: 40, Hostile: true, PlainLex: true, Runaway: true, Stop: true, ForallDict: false} // forall over a dictionary has no defined order in PostScript: a hostile `/pop {exit} def` would make the result legitimately order-dependent

var nameSamples = []string{"A", "space", "fi", "f_i", "uni0041", "uni00410042", "u1F600", "a.sc", "Aacute", "a1", "a100", "a206", ".notdef", "germandbls", "T_h.liga", "uniD800", "zzz", "afii10017", "Lcommaaccent", "dalethatafpatah"}

// genConcOp draws one operation.  Everything it touches is created inside the
// closure or captured immutably, so tasks share nothing through the harness.
func genConcOp(t *sim.Tape) concOp {
	return genConcOpKind(t, t.Weighted(4, 3, 2, 2, 2, 3, 2, 1, 1, 1, 1, 1, 1, 1))
}

func genConcOpKind(t *sim.Tape, kind int) concOp {
	switch kind {
	case 9: // fonts only a foreign producer writes: composites, many glyphs, other lenIV
		return foreignFontOp(t)
	case 10: // dictionary comparisons and the other operators with hidden helpers
		k := t.Choose(4)
		return concOp{"Execute(dictionary comparisons)", func() string {
			in := postscript.NewInterpreter()
			in.MaxOps = psSafetyBudget
			src := "currentdict dup eq userdict 5 dict ne << /a 1 >> << /b 2 >> eq << /a 1 >> dup eq 3 dict 3 dict eq errordict errordict ne"
			if k > 0 {
				src += " /d << /x 1 /y 2 >> def d d eq d << /x 1 /y 2 >> eq systemdict userdict eq"
			}
			err := in.Execute(strings.NewReader(src))
			return dump.Err(err) + " " + dump.InterpNoDSC(in)
		}}
	case 13: // a program that allocates 70-90 MB of strings and keeps none
		n := 1050 + t.Choose(300)
		return concOp{"Execute(program allocating many large strings)", func() string {
			in := postscript.NewInterpreter()
			in.MaxOps = psSafetyBudget
			err := in.Execute(strings.NewReader(fmt.Sprintf("%d { 65535 string pop } repeat 5 { 60000 array pop } repeat 2 { 60000 dict pop } repeat", n)))
			return dump.Err(err) + " " + dump.InterpNoDSC(in)
		}}
	case 12: // the PFB decoder
		p, _ := gen.GenPFB(t, 5, 300, gen.PFBShortBinary, gen.PFBBadHeader)
		data := p.Bytes()
		k := 1 + t.Choose(64)
		return concOp{"pfb.Decode", func() string {
			r := pfb.Decode(bytes.NewReader(data))
			var out []byte
			buf := make([]byte, k)
			for i := 0; i < 1_000_000; i++ {
				n, err := r.Read(buf)
				out = append(out, buf[:n]...)
				if err != nil {
					return fmt.Sprintf("%x %v", out, err)
				}
			}
			return "no end"
		}}
	case 11: // CMap files misusing the CIDInit operators (error paths)
		file := gen.GenCMapMisuse(t)
		return concOp{"ReadCMap(misused operators)", func() string {
			d, err := postscript.ReadCMap(bytes.NewReader(file))
			if d == nil {
				return dump.Err(err) + " nil"
			}
			return dump.Err(err) + " " + dump.Object(d)
		}}
	case 0: // hostile program in its own interpreter
		ho := hostileOpts
		ho.PlainLex = t.Bool(1, 2) // the rich lexical forms (radix numbers, escapes ...) have helpers of their own
		p := gen.GenPS(t, ho)
		if t.Bool(1, 5) {
			o := ho
			o.Files, o.Errors = true, 40
			p = gen.GenPSWithEexec(t, o)
		}
		budget := []int{0, 200, 3000}[t.Choose(3)]
		if budget == 0 {
			budget = psSafetyBudget
		}
		return concOp{"Execute(hostile program)", func() string {
			in := postscript.NewInterpreter()
			in.MaxOps = budget
			err := in.Execute(bytes.NewReader(p.Src))
			if hostileIteratesDict(p.Src, budget) {
				// with its own error handlers in place a hostile program may go on
				// after an error and hand forall a dictionary: PostScript leaves the
				// order open, so there is no single result to compare
				return "program iterates a dictionary: order left open by PostScript"
			}
			return dump.Err(err) + " " + dump.InterpNoDSC(in)
		}}
	case 1: // CMap
		file := gen.GenCMapFile(t, 1+t.Choose(2))
		return concOp{"ReadCMap", func() string {
			d, err := postscript.ReadCMap(bytes.NewReader(file))
			if d == nil {
				return dump.Err(err) + " nil"
			}
			return dump.Err(err) + " " + dump.Object(d)
		}}
	case 2: // font read
		f := gen.GenFont(t, 8)
		format := sim.Pick(t, gen.FontFormats)
		file, _ := gen.FontFile(f, format)
		if format != type1.FormatPFB && t.Bool(2, 3) {
			file = gen.Redate(t, file) // the other date layouts the reader accepts
		}
		return concOp{fmt.Sprintf("type1.Read(format %d)", format), func() string {
			g, err := type1.Read(bytes.NewReader(file))
			return dump.Err(err) + " " + dump.Font(g)
		}}
	case 3: // font write
		f := gen.GenFont(t, 8)
		if t.Choose(8) == 0 {
			// a glyph name the writer must refuse (not made of regular characters)
			f.Glyphs[[]string{"a b", "x/y", "p(q", "", "t\tu"}[t.Choose(5)]] = gen.GenGlyph(t, false)
		}
		format := sim.Pick(t, gen.FontFormats)
		var opt *type1.WriterOptions
		switch t.Choose(4) {
		case 0:
			opt = nil // the package's default options
		case 1:
			opt = &type1.WriterOptions{}
		default:
			opt = &type1.WriterOptions{Format: format}
		}
		if t.Bool(1, 6) {
			return concOp{"Font.WritePDF", func() string {
				var buf bytes.Buffer
				a, b, err := f.WritePDF(&buf)
				return fmt.Sprintf("%s %d %d %s", dump.Err(err), a, b, buf.String())
			}}
		}
		return concOp{fmt.Sprintf("Font.Write(%+v)", opt), func() string {
			var buf bytes.Buffer
			err := f.Write(&buf, opt)
			return dump.Err(err) + " " + buf.String()
		}}
	case 4: // AFM
		m := gen.GenMetrics(t, 10)
		return concOp{"Metrics.Write+afm.Read", func() string {
			var buf bytes.Buffer
			err := m.Write(&buf)
			g, err2 := afm.Read(bytes.NewReader(buf.Bytes()))
			return dump.Err(err) + dump.Err(err2) + " " + buf.String() + dump.Metrics(g)
		}}
	case 5: // glyph names (lazy, mutex-guarded tables)
		var ns []string
		for i := 1 + t.Choose(4); i > 0; i-- {
			ns = append(ns, sim.Pick(t, nameSamples))
		}
		r := rune(t.Choose(0x3000))
		ding := t.Bool(1, 3)
		return concOp{"names.ToUnicode/FromUnicode/IsValid", func() string {
			var sb strings.Builder
			for _, n := range ns {
				fmt.Fprintf(&sb, "%s->%q,%t ", n, string(names.ToUnicode(n, ding)), names.IsValid(n))
			}
			fmt.Fprintf(&sb, "%U->%s", r, names.FromUnicode(r))
			return sb.String()
		}}
	case 6: // a fresh interpreter, untouched
		return concOp{"NewInterpreter (fresh state)", func() string {
			return dump.Interp(postscript.NewInterpreter())
		}}
	case 7: // CID procedures through the interpreter, then hostile changes to them
		k := t.Choose(3)
		return concOp{"Execute(CIDInit user)", func() string {
			in := postscript.NewInterpreter()
			in.MaxOps = psSafetyBudget
			src := "/CIDInit /ProcSet findresource begin 12 dict begin begincmap /CMapName /T def 1 begincodespacerange <00> <ff> endcodespacerange 2 begincidchar <01> 1 <02> 2 endcidchar endcmap CMapName currentdict /CMap defineresource pop end end"
			if k == 1 {
				src = "/CIDInit /ProcSet findresource /begincmap { stop } put " + src
			} else if k == 2 {
				src = "/CIDInit /ProcSet findresource begin /endcmap 42 def end " + src
			}
			err := in.Execute(strings.NewReader(src))
			return dump.Err(err) + " " + dump.InterpNoDSC(in)
		}}
	default: // queries
		f := gen.GenFont(t, 12)
		return concOp{"Font queries", func() string {
			return fmt.Sprintf("%q %v %v %d", f.GlyphList(), f.FontBBox(), f.FontBBoxPDF(), f.NumGlyphs())
		}}
	}
}

// foreignFontOp reads a font of a kind the library's own writer never produces.
func foreignFontOp(t *sim.Tape) concOp {
	var file []byte
	what := ""
	switch t.Choose(9) {
	case 8:
		// a valid font whose program is expensive: a few hundred thousand
		// operations of prologue (the reader's budget is three million)
		file = gen.TinyFont(t)
		if i := bytes.IndexByte(file, '\n'); i > 0 {
			file = append(append(append([]byte{}, file[:i+1]...), fmt.Sprintf("1 1 %d { pop } for\n", 110000+t.Choose(200000))...), file[i+1:]...)
		}
		what = "tiny font with a prologue of 0.3-0.9 million operations"
	case 5:
		file = gen.AliasFont(t)
		what = "font without /FontName, registered under two names"
	case 6:
		file = gen.TinyFont(t)
		what = "hand-written tiny font"
	case 7:
		file = gen.CaseVariantFont(t)
		what = "font with FontInfo keys differing in case"
	case 3:
		file = gen.FractionalWidthFont(t)
		what = "font with fractional widths"
	case 4:
		so, sp := gen.SubrFontPair(t)
		file, what = so, "font with Subrs"
		if t.Bool(1, 2) {
			file, what = sp, "lenIV 0 font with Subrs"
		}
	default:
		file, _ = gen.BigSeacFont(t)
		what = "large seac font"
	case 1:
		file, _ = gen.SeacFont(t)
		what = "seac font"
	case 2:
		var n int
		file, n = gen.LenIVFont(t)
		what = fmt.Sprintf("lenIV %d font", n)
	}
	reps := 1
	if t.Choose(4) == 0 {
		// a file that is rejected late, on a rarely taken error path, read many
		// times: whatever such a failure leaves behind accumulates
		file = gen.BadFontMatrixFont(t)
		what = "font with a non-numeric FontMatrix entry, x40"
		reps = 40
	}
	return concOp{"type1.Read(" + what + ")", func() string {
		var r string
		for i := 0; i < reps; i++ {
			g, err := type1.Read(bytes.NewReader(file))
			r = dump.Err(err) + " " + dump.Font(g)
		}
		return r
	}}
}

// probeBattery is the fixed workload run on fresh objects; its dump must never
// change, whatever ran before it.
func probeBattery() string {
	var sb strings.Builder
	sb.WriteString(dump.Interp(postscript.NewInterpreter()))
	in := postscript.NewInterpreter()
	in.MaxOps = psSafetyBudget
	err := in.ExecuteString(`%!PS
/a 1 2 add def /s (abc) def s 0 get pop a 7 mul 3 sub abs
[ 1 2 3 ] { 2 mul } forall 3 array dup 0 /x put
<< /k 1 >> begin k end 5 dict dup /q (v) put /q get
true false and true or not 1 1 eq 1 2 ne
3 { 1 } repeat 0 1 3 { pop } for { exit } loop
(x) length 2 string dup 0 65 put 1 index type
StandardEncoding 65 get StandardEncoding length
mark 1 2 cleartomark count 2 copy 3 1 roll exch dup pop
matrix dup 0 get exch length matrix 3 get
1183615869 internaldict length
/PF << /FontType 1 >> definefont pop /PF findfont /FontType get FontDirectory length
/PR 42 /ProcSet defineresource pop /PR /ProcSet findresource /CIDInit /ProcSet findresource length
[ 1 2 3 4 ] 1 2 getinterval [ 9 9 9 9 ] dup 1 [ 7 8 ] putinterval
/a where { pop } if /s load length userdict /a known 3 dict maxlength pop
{ 1 2 add } bind exec { 3 } cvx exec [ 4 ] cvx exec (r) readonly (n) noaccess { } executeonly
currentdict length currentfile pop userdict length systemdict length errordict length
1 1 3 { } for 2 { 5 } repeat (ab) { } forall << /z 1 >> { pop pop } forall
1 2 exch pop 3 index pop mark [ 1 ] ] length
true { 1 } if false { 1 } { 2 } ifelse
16#FF 8#17 2#101 1e3 .5 -3 <0A1b> <~87cUR~> (a\(b\)\\c\n\101)
errordict /typecheck known 1 (a) add
`)
	sb.WriteString(dump.Err(err) + " " + dump.InterpNoDSC(in))
	// resources other callers may have defined must not be visible here
	for _, q := range []string{"/Test-H /CMap", "/Alpha /CMap", "/beta /CMap", "/Zeta-V /CMap", "/M0 /CMap", "/aaa /CMap", "/A /CMap", "/Evil /CMap", "/Odd /CMap", "/T /CMap", "/Probe /CMap",
		"/Evil /ProcSet", "/R0 /Font", "/R1 /CIDFont", "/R2 /ProcSet", "/F0 /Font", "/Evil /Font", "/PF /Font", "/Identity-H /CMap"} {
		ri := postscript.NewInterpreter()
		ri.MaxOps = 1000
		e := ri.ExecuteString(q + " findresource")
		fmt.Fprintf(&sb, "\n%s findresource: %s stack=%d", q, dump.Err(e), len(ri.Stack))
	}
	for _, q := range []string{"/F0", "/F1", "/F2", "/Evil", "/PF"} {
		ri := postscript.NewInterpreter()
		ri.MaxOps = 1000
		e := ri.ExecuteString(q + " findfont")
		fmt.Fprintf(&sb, "\n%s findfont: %s", q, dump.Err(e))
	}
	// the budget error, as a fresh instance reports it
	lim := postscript.NewInterpreter()
	lim.MaxOps = 25
	err = lim.ExecuteString("1 2 add pop\n\n{ 1 pop } loop")
	fmt.Fprintf(&sb, "\nbudget: %s NumOps=%d identity=%t", dump.Err(err), lim.NumOps, err == postscript.ErrExecutionLimitExceeded)
	// an eexec section (hex), then clear text again
	ee := postscript.NewInterpreter()
	ee.MaxOps = psSafetyBudget
	err = ee.Execute(bytes.NewReader(gen.WrapEexec(sim.ReplayTape(nil), []byte("/before 1 def\n"), []byte("/inside (x) def\nmark currentfile closefile\n"), []byte("00000000\ncleartomark /after 2 def\n"), false)))
	sb.WriteString("\neexec: " + dump.Err(err) + " " + dump.Object(ee.UserDict))
	cm, err := postscript.ReadCMap(strings.NewReader("/CIDInit /ProcSet findresource begin 12 dict begin begincmap /CMapName /Probe def 1 begincodespacerange <00> <ff> endcodespacerange 2 begincidrange <00> <0f> 0 <10> <1f> 100 endcidrange 1 beginbfchar <20> <0041> endbfchar 1 beginnotdefrange <00> <01> 0 endnotdefrange endcmap CMapName currentdict /CMap defineresource pop end end"))
	sb.WriteString(dump.Err(err) + " " + dump.Object(cm))
	f := probeFont()
	for _, format := range gen.FontFormats {
		var buf bytes.Buffer
		err := f.Write(&buf, &type1.WriterOptions{Format: format})
		g, err2 := type1.Read(bytes.NewReader(buf.Bytes()))
		fmt.Fprintf(&sb, "\nformat %d: %s %s %x %s", format, dump.Err(err), dump.Err(err2), sim.HashBytes(buf.Bytes()), dump.Font(g))
	}
	// a font with charstring subroutines (hand-assembled; fixed)
	if so, _ := gen.SubrFontPair(sim.ReplayTape([]uint32{1, 2, 3})); so != nil {
		g, err := type1.Read(bytes.NewReader(so))
		fmt.Fprintf(&sb, "\nsubr font: %s %s", dump.Err(err), dump.Font(g))
	}
	// fonts the library's writer never produces: no /FontName, hand-written,
	// a FontName that is a string
	for i, file := range [][]byte{gen.AliasFont(sim.ReplayTape([]uint32{2, 1})), gen.TinyFont(sim.ReplayTape([]uint32{1, 3, 1, 1})),
		bytes.Replace(gen.TinyFont(sim.ReplayTape(nil)), []byte("/FontName /Tiny def"), []byte("/FontName (Tiny) def"), 1)} {
		g, err := type1.Read(bytes.NewReader(file))
		fmt.Fprintf(&sb, "\nforeign font %d: %s %s", i, dump.Err(err), dump.Font(g))
	}
	// default options, the PDF form, the queries, and the exported tables
	{
		var buf bytes.Buffer
		err := f.Write(&buf, nil)
		fmt.Fprintf(&sb, "\nnil options: %s %x", dump.Err(err), sim.HashBytes(buf.Bytes()))
		buf.Reset()
		err = f.Write(&buf, &type1.WriterOptions{})
		fmt.Fprintf(&sb, "\nzero options: %s %x", dump.Err(err), sim.HashBytes(buf.Bytes()))
		buf.Reset()
		l1, l2, err := f.WritePDF(&buf)
		fmt.Fprintf(&sb, "\nWritePDF: %s %d %d %x", dump.Err(err), l1, l2, sim.HashBytes(buf.Bytes()))
		fmt.Fprintf(&sb, "\nqueries: %q %v %v %d", f.GlyphList(), f.FontBBox(), f.FontBBoxPDF(), f.NumGlyphs())
		fmt.Fprintf(&sb, "\npsenc: %q", psenc.StandardEncoding)
		rev := make([]string, 0, len(psenc.StandardEncodingRev))
		for k, v := range psenc.StandardEncodingRev {
			rev = append(rev, fmt.Sprintf("%s=%d", k, v))
		}
		sort.Strings(rev)
		fmt.Fprintf(&sb, " rev=%q", rev)
	}
	m := &afm.Metrics{Glyphs: map[string]*afm.GlyphInfo{"A": {WidthX: 500, Ligatures: map[string]string{"B": "A_B", "C": "A_C"}}, "B": {WidthX: 400}}, Encoding: make([]string, 256), FontName: "P", FullName: "P Q"}
	for i := range m.Encoding {
		m.Encoding[i] = ".notdef"
	}
	m.Encoding[65] = "A"
	var buf bytes.Buffer
	err = m.Write(&buf)
	g, err2 := afm.Read(bytes.NewReader(buf.Bytes()))
	fmt.Fprintf(&sb, "\nafm: %s %s %s %s", dump.Err(err), dump.Err(err2), buf.String(), dump.Metrics(g))
	for _, n := range nameSamples {
		fmt.Fprintf(&sb, " %s->%q/%q,%t", n, string(names.ToUnicode(n, false)), string(names.ToUnicode(n, true)), names.IsValid(n))
	}
	for _, r := range []rune{'A', ' ', 0xfb01, 0x1F600, 0x3b1, 0x10000, 0xe000} {
		fmt.Fprintf(&sb, " %U->%s", r, names.FromUnicode(r))
	}
	return sb.String()
}

const edgeMark = "\n#EDGE#\n"

// edgeProbe reads two valid inputs that need slightly more operations than
// the readers' built-in budgets allow (a few million operations: too expensive
// for every probe, so it follows only histories made for it).  A fresh
// process rejects both; so must a process that has read expensive valid inputs
// before.
func edgeProbe() string {
	tf := gen.TinyFont(sim.ReplayTape([]uint32{1, 2}))
	if i := bytes.IndexByte(tf, '\n'); i > 0 {
		tf = append(append(append([]byte{}, tf[:i+1]...), "1 1 1000100 { pop } for\n"...), tf[i+1:]...)
	}
	g, err := type1.Read(bytes.NewReader(tf))
	r := "font just over the reader's budget: " + dump.Err(err) + " " + dump.Font(g)
	d, err := postscript.ReadCMap(strings.NewReader("/CIDInit /ProcSet findresource begin 12 dict begin begincmap /CMapName /E def 1 begincodespacerange <00> <ff> endcodespacerange\n1 1 334000 { pop } for\nendcmap CMapName currentdict /CMap defineresource pop end end\n"))
	r += "\nCMap just over the reader's budget: " + dump.Err(err)
	if d != nil {
		r += " " + dump.Object(d)
	}
	return r
}

func probeFont() *type1.Font {
	t := sim.ReplayTape([]uint32{0, 3, 1, 4, 1, 5, 9, 2, 6, 5, 3, 5, 8, 9, 7, 9, 3, 2, 3, 8, 4, 6, 2, 6, 4, 3, 3, 8, 3, 2, 7, 9, 5, 0, 2, 8, 8, 4, 1, 9, 7, 1})
	return gen.GenFont(t, 6)
}

// --- reference helper process -------------------------------------------------

type concHelper struct {
	cmd *exec.Cmd
	in  *bufio.Writer
	out *bufio.Reader
}

var chelper *concHelper

func startConcHelper() {
	exe, _ := os.Executable()
	cmd := exec.Command(exe, "C18", "helper")
	cmd.Stderr = os.Stderr
	cmd.Env = append(os.Environ(), "GORACE=halt_on_error=0")
	w, _ := cmd.StdinPipe()
	r, _ := cmd.StdoutPipe()
	if err := cmd.Start(); err != nil {
		fmt.Fprintln(os.Stderr, "cannot start helper process:", err)
		os.Exit(3)
	}
	chelper = &concHelper{cmd, bufio.NewWriter(w), bufio.NewReaderSize(r, 1<<20)}
}

// ConcHelperMain answers reference requests: it regenerates the operations of a
// run from the workload tape and executes each of them alone, sequentially.
func ConcHelperMain() {
	in := bufio.NewReaderSize(os.Stdin, 1<<20)
	out := bufio.NewWriter(os.Stdout)
	for {
		line, err := in.ReadBytes('\n')
		if len(line) == 0 && err != nil {
			return
		}
		if bytes.HasPrefix(line, []byte("PROBE")) {
			// the pristine probe: this process has run nothing else
			js, _ := json.Marshal(probeBattery() + edgeMark + edgeProbe())
			out.Write(js)
			out.WriteByte('\n')
			out.Flush()
			continue
		}
		var tape []uint32
		if json.Unmarshal(line, &tape) != nil {
			return
		}
		tasks := genConcTasks(sim.ReplayTape(tape))
		var res [][]string
		for _, ops := range tasks {
			var r []string
			for _, op := range ops {
				r = append(r, digest(safeConc(op)))
			}
			res = append(res, r)
		}
		js, _ := json.Marshal(res)
		out.Write(js)
		out.WriteByte('\n')
		out.Flush()
	}
}

func (h *concHelper) reference(tape []uint32) ([][]string, error) {
	js, _ := json.Marshal(tape)
	h.in.Write(js)
	h.in.WriteByte('\n')
	if err := h.in.Flush(); err != nil {
		return nil, err
	}
	line, err := h.out.ReadBytes('\n')
	if err != nil {
		return nil, err
	}
	var res [][]string
	if err := json.Unmarshal(line, &res); err != nil {
		return nil, err
	}
	return res, nil
}

// pristineProbe asks a fresh process (which has run nothing but the probe
// battery itself) for the probe dump.
func pristineProbe() string {
	// one pristine process per check invocation is enough: the result is cached
	// in the invocation's scratch directory
	cache := ""
	if d := os.Getenv("VERIF_SCRATCH_RUN"); d != "" {
		cache = d + "/pristine-probe.txt"
		if b, err := os.ReadFile(cache); err == nil && len(b) > 0 {
			return string(b)
		}
	}
	res := pristineProbeUncached()
	if cache != "" {
		tmp := fmt.Sprintf("%s.%d", cache, os.Getpid())
		if os.WriteFile(tmp, []byte(res), 0o644) == nil {
			os.Rename(tmp, cache)
		}
	}
	return res
}

func pristineProbeUncached() string {
	exe, _ := os.Executable()
	if p := os.Getenv("VERIF_PLAIN_VH"); p != "" && !strings.Contains(exe, "vhinst") {
		exe = p
	}
	cmd := exec.Command(exe, "C18", "helper")
	cmd.Stdin = strings.NewReader("PROBE\n")
	cmd.Env = append(os.Environ(), "GORACE=halt_on_error=0")
	out, err := cmd.Output()
	var res string
	if err != nil || json.Unmarshal(bytes.TrimSpace(out), &res) != nil {
		fmt.Fprintln(os.Stderr, "cannot obtain the pristine probe:", err)
		os.Exit(3)
	}
	return res
}

// hostileIteratesDict runs the program once more, in an interpreter of its
// own, behind a prologue that makes forall report dictionary operands.
func hostileIteratesDict(src []byte, budget int) (yes bool) {
	defer func() {
		if recover() != nil {
			yes = false
		}
	}()
	in := postscript.NewInterpreter()
	in.ExecuteString("userdict /forall { mark 2 index type /dicttype eq { userdict /VERIF-dict-forall true put } if cleartomark systemdict /forall get exec } put")
	in.NumOps = 0
	in.MaxOps = budget
	in.Execute(bytes.NewReader(src))
	_, yes = in.UserDict["VERIF-dict-forall"]
	return yes
}

func safeExecute(in *postscript.Interpreter, src []byte) (err error, panicked bool) {
	defer func() {
		if p := recover(); p != nil {
			err, panicked = fmt.Errorf("panic: %v", p), true
		}
	}()
	return in.Execute(bytes.NewReader(src)), false
}

func safeConc(op concOp) (res string) {
	defer func() {
		if p := recover(); p != nil {
			res = fmt.Sprintf("PANIC: %v", p)
		}
	}()
	return op.run()
}

func genConcTasks(t *sim.Tape) [][]concOp {
	n := 2 + t.Weighted(4, 3, 2, 1, 1)
	tasks := make([][]concOp, n)
	if t.Choose(3) == 2 {
		// every caller does the same thing at the same time, each on objects of
		// its own (the operations are built again from the same draws): whatever
		// the operation sets up on first use - a rarely needed table, a lazily
		// compiled pattern - is then needed by all of them at once
		k := 1 + t.Choose(3)
		hostileFirst := t.Bool(1, 2)
		start := len(t.Rec)
		for j := 0; j < k; j++ {
			if j == 0 && hostileFirst {
				tasks[0] = append(tasks[0], genConcOpKind(t, 0))
			} else {
				tasks[0] = append(tasks[0], genConcOp(t))
			}
		}
		rec := append([]uint32(nil), t.Rec[start:]...)
		if t.Bool(1, 2) {
			// ... and on the very same input values (one font, one metrics
			// object, one byte slice handed to all callers: the library only
			// reads its inputs)
			for i := 1; i < n; i++ {
				tasks[i] = tasks[0]
			}
			return tasks
		}
		for i := 1; i < n; i++ {
			rt := sim.ReplayTape(rec)
			for j := 0; j < k; j++ {
				if j == 0 && hostileFirst {
					tasks[i] = append(tasks[i], genConcOpKind(rt, 0))
				} else {
					tasks[i] = append(tasks[i], genConcOp(rt))
				}
			}
		}
		return tasks
	}
	for i := range tasks {
		k := 1 + t.Choose(4)
		for j := 0; j < k; j++ {
			tasks[i] = append(tasks[i], genConcOp(t))
		}
	}
	return tasks
}

var raceFrame = regexp.MustCompile(`seehuhn\.de/go/postscript[^\s(]*\.([A-Za-z0-9_.()*]+)\(`)

func classifyRace(exit int, stderr string) *sim.Outcome {
	if exit == 66 || strings.Contains(stderr, "WARNING: DATA RACE") {
		site := "?"
		if m := raceFrame.FindStringSubmatch(stderr); m != nil {
			site = m[1]
		}
		return &sim.Outcome{Class: "data-race", Key: "race:" + site, Detail: "the Go race detector reported a data race in library code (first library frame: " + site + ")",
			Human: map[string]any{"race_report": stderr[:min(len(stderr), 6000)]}}
	}
	return nil
}

// C18 builds the check for property C18 (instrumented copy, -race).
func C18() *sim.Check {
	raceEnv := []string{"GORACE=halt_on_error=1 exitcode=66", "GOMAXPROCS=1", "GOMEMLIMIT=3GiB"}
	freeRunning := blockingSites() > 0
	if freeRunning {
		raceEnv[1] = "GOMAXPROCS=4"
	}

	conc := func(name string, quick, thorough, perProc int) *sim.Batch {
		b := &sim.Batch{Name: name, Quick: quick, Thorough: thorough, Isolated: true, PerProc: perProc, Workers: 16, Env: raceEnv,
			ChildTimeout: 900 * time.Second, StallAfter: 300 * time.Second, ClassifyAbort: classifyRace, MaxShrink: 120}
		b.ChildInit = startConcHelper
		b.Run = func(c *sim.RunCtx) *sim.Outcome {
			t := c.T
			start := len(t.Rec)
			tasks := genConcTasks(t)
			wt := append([]uint32(nil), t.Rec[start:]...)
			results := make([][]string, len(tasks))
			var wg sync.WaitGroup
			funcs := make([]func(), len(tasks))
			for i := range tasks {
				i := i
				results[i] = make([]string, len(tasks[i]))
				wg.Add(1)
				funcs[i] = func() {
					defer wg.Done()
					for j, op := range tasks[i] {
						results[i][j] = digest(safeConc(op))
					}
				}
			}
			// the scheduler continues the run's own PRNG stream through a norace tape
			if freeRunning {
				// the library blocks on channels / condition variables somewhere:
				// a cooperative scheduler cannot own such code, so the tasks run
				// as ordinary goroutines (uncontrolled interleaving; still the race
				// detector and the comparison with sequential results)
				for _, f := range funcs {
					go f()
				}
				wg.Wait()
				if c.St != nil {
					c.St.Inc("simulations_free_running(library uses blocking primitives)")
					c.St.Add("context_switches", 1)
					c.St.Add("lock_contentions", 1)
					c.St.Add("probe_switch_with_another_task_inside_library", 1)
					c.St.Inc("probe_cold_start_simulations")
				}
				return compareWithSequential(c, tasks, results, wt, nil)
			}
			st := simrt.NewSchedTape(t.State(), t.Remaining(), t.Replaying())
			// library loops over maps run in sorted key order while tasks are
			// scheduled: with Go's random order the number of comparator calls in
			// sort.Slice (each a yield point) would differ from execution to
			// execution and the same tape would give different interleavings
			simrt.SetOrder(simrt.OrderSorted, nil)
			res := simrt.Run(st, 20_000_000, funcs)
			simrt.SetOrder(simrt.OrderNative, nil)
			wg.Wait()
			t.Absorb(st.Rec)
			t.SetState(st.State())
			if c.St != nil {
				c.St.Inc("simulations")
				c.St.Add("tasks", int64(len(tasks)))
				c.St.Add("yields", res.Steps)
				c.St.Add("context_switches", res.Switches)
				c.St.Add("lock_contentions", res.Contentions)
				c.St.Add("fired_preemption_at_yield_point", res.Switches)
				c.St.Add("fired_lock_contention", res.Contentions)
				if res.Parks > 0 {
					c.St.Add("fired_blocking_operation_parked", res.Parks)
				}
				if res.Timers > 0 {
					c.St.Add("library_timers_set", res.Timers)
					c.St.Add("fired_timer_at_once", res.TimersFired)
				}
				c.St.Add("probe_switch_with_another_task_inside_library", res.Overlaps)
				c.St.Print(res.Trace)
				if res.Switches > 0 && len(tasks) >= 2 {
					c.St.Case(res.Trace)
				}
				if c.Index%max(perProc, 1) == 0 {
					c.St.Inc("probe_cold_start_simulations")
					c.St.Inc("fired_cold_start")
				}
				names := []string{}
				for _, ops := range tasks {
					for _, op := range ops {
						names = append(names, op.Name)
					}
				}
				c.St.Sample(map[string]any{"tasks": len(tasks), "operations": names, "yields": res.Steps, "context_switches": res.Switches})
			}
			human := func(extra map[string]any) map[string]any {
				if !c.Explain {
					return nil
				}
				var ts [][]string
				for _, ops := range tasks {
					var l []string
					for _, op := range ops {
						l = append(l, op.Name)
					}
					ts = append(ts, l)
				}
				h := map[string]any{"tasks": ts, "yields": res.Steps, "context_switches": res.Switches, "lock_contentions": res.Contentions, "interleaving_fingerprint": fmt.Sprintf("%x", res.Trace), "schedule_draws": len(st.Rec)}
				for k, v := range extra {
					h[k] = v
				}
				return h
			}
			if res.Aborted {
				return &sim.Outcome{Class: "no-progress", Key: "conc:no-progress", Detail: "tasks did not finish within the step budget / every task was blocked", Human: human(nil)}
			}
			if len(res.Panics) > 0 {
				return &sim.Outcome{Class: "task-panic", Key: "conc:panic", Detail: fmt.Sprintf("a task panicked: %v", res.Panics[0]), Human: human(nil)}
			}
			return compareWithSequential(c, tasks, results, wt, human)
		}
		return b
	}

	// isolation over histories: probe0 ; (polluter ; probe)*
	var probe0, edge0 string
	iso := &sim.Batch{Name: "isolation", Quick: 12000, Thorough: 250_000, Isolated: true, PerProc: 1, Workers: 16, Env: raceEnv, ChildTimeout: 600 * time.Second, ClassifyAbort: classifyRace, MaxShrink: 150}
	// probe0 comes from a separate pristine process; this process runs its first
	// polluter BEFORE its first probe, so state that only the first use fixes
	// (lazy tables, anything "burnt in" by the first error) is covered too
	iso.ChildInit = func() { probe0 = pristineProbe() }
	// isolation histories need neither the yield points nor the race detector:
	// their children run the plain build (50 times faster to start and to build
	// the lazy tables), one history per process
	iso.ChildExe = os.Getenv("VERIF_PLAIN_VH")
	if iso.ChildExe != "" {
		iso.Env = nil
	}
	iso.Run = func(c *sim.RunCtx) *sim.Outcome {
		t := c.T
		if probe0 == "" {
			probe0 = pristineProbe()
		}
		if k := strings.Index(probe0, edgeMark); k >= 0 {
			probe0, edge0 = probe0[:k], probe0[k+len(edgeMark):]
		}
		n := 1 + t.Choose(7)
		var hist []string
		if t.Choose(40) == 0 {
			// a history made for the budget-edge probe: valid inputs that are
			// expensive, but well within the readers' budgets, come first
			tf := gen.TinyFont(t)
			if i := bytes.IndexByte(tf, '\n'); i > 0 {
				tf = append(append(append([]byte{}, tf[:i+1]...), fmt.Sprintf("1 1 %d { pop } for\n", 120000+t.Choose(500000))...), tf[i+1:]...)
			}
			for k := 1 + t.Choose(2); k > 0; k-- {
				type1.Read(bytes.NewReader(tf))
			}
			postscript.ReadCMap(strings.NewReader(fmt.Sprintf("/CIDInit /ProcSet findresource begin 12 dict begin begincmap /CMapName /X def 1 begincodespacerange <00> <ff> endcodespacerange\n1 1 %d { pop } for\nendcmap CMapName currentdict /CMap defineresource pop end end\n", 50000+t.Choose(250000))))
			hist = append(hist, "a valid font and a valid CMap that need several hundred thousand operations")
			c.St.Inc("probe_budget_edge_histories")
			if e := edgeProbe(); edge0 != "" && e != edge0 {
				return isoOutcome(c, hist, e, edge0, nil)
			}
		}
		for i := 0; i < n; i++ {
			var op concOp
			switch t.Weighted(5, 2, 2, 2) {
			case 0:
				// a hostile program fed in several Execute calls, probes in between
				p := gen.GenPS(t, hostileOpts)
				if t.Bool(1, 4) {
					// ... or one with an eexec-encrypted tail that fails half-way
					o := hostileOpts
					o.Files, o.Errors = true, 60
					p = gen.GenPSWithEexec(t, o)
					c.St.Inc("polluters_with_eexec")
				}
				cuts := []int{}
				if len(p.Gaps) > 0 && t.Bool(1, 2) {
					cuts = append(cuts, sim.Pick(t, p.Gaps))
				}
				budget := []int{psSafetyBudget, 150, 2000}[t.Choose(3)]
				in := postscript.NewInterpreter()
				in.MaxOps = budget
				pieces := splitAt(p.Src, cuts)
				for k, piece := range pieces {
					// a hostile program that makes the interpreter panic is an input
					// problem (property C01, not claimed here); for this property it
					// is one more way of failing half-way, and the probe still has
					// to come out as if nothing had run
					err, panicked := safeExecute(in, piece)
					if panicked {
						c.St.Inc("polluters_that_panicked(C01)")
					}
					if k < len(pieces)-1 {
						if d := probeBattery(); d != probe0 {
							return isoOutcome(c, append(hist, "hostile program (first part)"), d, probe0, p.Src)
						}
					}
					if err != nil {
						break
					}
				}
				hist = append(hist, "hostile program: "+printable(p.Src))
			case 1:
				op = genConcOp(t)
				safeConc(op)
				hist = append(hist, op.Name)
			case 3:
				// fonts only a foreign producer writes
				op = foreignFontOp(t)
				safeConc(op)
				hist = append(hist, op.Name)
			default:
				// a font whose encoding names glyphs the font lacks: the reader's
				// .notdef substitution runs
				f := gen.GenFont(t, 5)
				f.Encoding = make([]string, 256)
				for k := range f.Encoding {
					f.Encoding[k] = []string{".notdef", "A", "missing1", "space", "missing2"}[t.Choose(5)]
				}
				var buf bytes.Buffer
				if f.Write(&buf, nil) == nil {
					type1.Read(bytes.NewReader(buf.Bytes()))
				}
				hist = append(hist, "font with encoding naming absent glyphs")
			}
			if d := probeBattery(); d != probe0 {
				return isoOutcome(c, hist, d, probe0, nil)
			}
			c.St.Inc("probes_after_polluter")
			c.St.Case(sim.Mix(sim.HashBytes([]byte(strings.Join(hist, "|"))), "iso", uint64(i)))
		}
		c.St.Inc("histories")
		c.St.Sample(map[string]any{"history": hist})
		return nil
	}

	ck := &sim.Check{
		Prop: "C18", Harness: "h_isolate+h_conc", Level: "exploration",
		Rule:        "concurrent / concurrent-cold: 2-6 caller goroutines become simulator tasks, each with 1-4 operations on objects it owns (hostile programs in own interpreters, ReadCMap, type1.Read, Font.Write, Metrics.Write+afm.Read, glyph-name look-ups, fresh interpreters, CIDInit users/abusers, font queries); tools/instrument puts a yield point at every function and loop entry of the library (~340 sites) and routes Lock/RLock/Once/go through the scheduler; only the task chosen by the tape runs, every context switch happens at a yield point, the hand-off uses plain norace variables so that the Go race detector sees only the library's own synchronisation. Oracles: no race report (halt_on_error, attributed to the run in progress), every operation's result digest equals that of the same operation run alone in a separate reference process, all tasks finish within the step budget. concurrent-cold uses one simulation per process so that first-use initialisation races with use. isolation: probe0 ; (polluter ; probe)* histories per process with a fixed probe battery on fresh objects after every polluter. distinct_nontrivial counts distinct interleaving fingerprints (hash of the (from-task, to-task, site) switch sequence) with >= 2 tasks and >= 1 context switch, plus distinct (history, step) isolation probes. In one simulation in three all callers run the same operations (rebuilt from the same draws, or - half of the time - sharing the very same input values), half of those starting with a hostile program: first-use initialisation is then needed by all at once. Goroutines the library starts become tasks; channel operations, select and sync.Cond.Wait that cannot complete at once are carried out parked (the task hands the turn on, blocks in the real operation, queues for the turn when it returns); time.AfterFunc either fires at once (callback = task) or not within the run, by a draw; time.Sleep passes simulated time only. None of these sites exists on the tree as pinned (the instrumenter reports the site list on every run).",
		Assume:      []string{"TSan keeps four accesses per shadow word and may miss a race; it never invents one", "the reference process runs polluters too; if isolation were broken there, results would still differ and be reported", "workers run with GOMAXPROCS=1: the interleaving is decided by the tape, not by the Go scheduler"},
		RealStub:    map[string]any{"real": []string{"all go-postscript packages, seam-instrumented copy of the current working tree, built with -race", "sync.Mutex (via TryLock), text/template, embed"}, "stub": []string{"the goroutine scheduler (seeded cooperative scheduler in simrt)", "caller goroutines (generated tasks)"}},
		Batches:     []*sim.Batch{iso, conc("concurrent-cold", 160, 5_000, 1), conc("concurrent", 5000, 150_000, 50)},
		SimTimeUnit: "scheduler steps (library yield points passed by simulated tasks)", SimTimeCounters: []string{"yields"},
		Probes: []string{"context_switches", "lock_contentions", "probe_switch_with_another_task_inside_library", "probe_cold_start_simulations", "sequential_reference_comparisons", "probes_after_polluter"},
	}
	return ck
}

// compareWithSequential checks every operation's digest against the reference
// process that ran the same operation alone.
func compareWithSequential(c *sim.RunCtx, tasks [][]concOp, results [][]string, wt []uint32, human func(map[string]any) map[string]any) *sim.Outcome {
	if human == nil {
		human = func(m map[string]any) map[string]any { return m }
	}
	if chelper == nil {
		return nil
	}
	ref, err := chelper.reference(wt)
	if err != nil {
		fmt.Fprintln(os.Stderr, "reference helper failed:", err)
		os.Exit(3)
	}
	for i := range tasks {
		for j := range tasks[i] {
			if i < len(ref) && j < len(ref[i]) && ref[i][j] != results[i][j] {
				return &sim.Outcome{Class: "differs-from-sequential", Key: "conc:result:" + tasks[i][j].Name,
					Detail: fmt.Sprintf("task %d operation %d (%s) returned a different result under this interleaving than when run alone in a separate process", i, j, tasks[i][j].Name),
					Human:  human(map[string]any{"task": i, "op": j, "digest_concurrent": results[i][j], "digest_sequential": ref[i][j], "result_now_when_rerun_alone": clipS(safeConc(tasks[i][j]), 2500)})}
			}
		}
	}
	c.St.Inc("sequential_reference_comparisons")
	return nil
}

func isoOutcome(c *sim.RunCtx, hist []string, got, want string, src []byte) *sim.Outcome {
	out := &sim.Outcome{Class: "isolation-broken", Key: "iso:" + keyOfDiff(got, want),
		Detail: "after this history a fresh interpreter / reader / writer behaves differently from a pristine process: " + firstDiff(got, want)}
	if c.Explain {
		out.Human = map[string]any{"history": hist, "probe_now": clipS(got, 1500), "probe_pristine": clipS(want, 1500)}
	}
	return out
}

func keyOfDiff(a, b string) string {
	n := min(len(a), len(b))
	i := 0
	for i < n && a[i] == b[i] {
		i++
	}
	lo := max(0, i-24)
	return strings.Map(func(r rune) rune {
		if r < 32 || r > 126 {
			return '.'
		}
		return r
	}, b[lo:min(len(b), i+8)])
}

// ProbeForTest exposes the probe battery to ad-hoc inspection.
func ProbeForTest() string { return probeBattery() }

// blockingSites counts the sites of kind "blocking" the instrumenter found in
// the current tree.
func blockingSites() int { return sitesOfKind("blocking") }

// sitesOfKind counts the sites of one kind that the instrumenter found in the
// current tree.
func sitesOfKind(kind string) int {
	p := os.Getenv("VERIF_SITES")
	if p == "" {
		return 0
	}
	b, err := os.ReadFile(p)
	if err != nil {
		return 0
	}
	var ss []struct {
		Kind string `json:"kind"`
	}
	if json.Unmarshal(b, &ss) != nil {
		return 0
	}
	n := 0
	for _, x := range ss {
		if x.Kind == kind {
			n++
		}
	}
	return n
}
