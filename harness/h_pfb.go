// Package harness contains one check per claimed property.
package harness

import (
	"bytes"
	"fmt"
	"io"

	"seehuhn.de/go/postscript/pfb"

	"verif/gen"
	"verif/sim"
)

const hexDigits = "0123456789abcdef"

// pfbModel is the reference model: a segment list maps to the expected output
// and the expected terminal condition.
type pfbModel struct {
	out []byte
	// terminal condition
	wantEOF     bool // io.EOF after out
	wantInvalid bool // pfb.ErrInvalidPFB after out
	wantNonEOF  bool // some error that is not io.EOF (short binary segment)
	prefixOnly  bool // only require the output to be a prefix of out (short segments, partial header)
}

func modelPFB(p *gen.PFBStream) pfbModel {
	var m pfbModel
	for i, s := range p.Segs {
		if s.Marker != 0x80 || s.Type < 1 || s.Type > 3 {
			m.wantInvalid = true
			return m
		}
		if s.Type == 3 {
			m.wantEOF = true
			return m
		}
		short := len(s.Data) < s.Declared
		if s.Type == 1 {
			m.out = append(m.out, s.Data...)
		} else {
			for _, b := range s.Data {
				m.out = append(m.out, hexDigits[b>>4], hexDigits[b&15])
			}
		}
		if short {
			_ = i
			m.prefixOnly = true
			if s.Type == 2 {
				m.wantNonEOF = true
			}
			return m
		}
	}
	if p.EndMarker {
		m.wantEOF = true
		return m
	}
	if len(p.PartialHeader) > 0 {
		m.prefixOnly = true // terminal condition: any error
		return m
	}
	m.wantEOF = true
	return m
}

type pfbRead struct {
	Want, Got int
	Err       string
}

type pfbObs struct {
	odd bool
	fp  uint64
	dec io.Reader // the decoder itself
	eof bool      // it has returned io.EOF
}

// runPFB drives pfb.Decode over a simulated source with the given caller buffer
// sizes and checks every Read against the model while the run proceeds.
// copyAfter, when >= 0, makes runPFB hand the decoder to io.Copy after that
// many Read calls (io.Copy uses a WriterTo method if the reader has one).
var pfbCopyAfter = -1

func runPFB(data []byte, m pfbModel, sch sim.Schedule, tape *sim.Tape, nextBuf func() int, st *sim.Stats, explain bool) (*sim.Outcome, []pfbRead, pfbObs) {
	return runPFBx(data, m, sch, tape, nextBuf, st, explain, -1, nil)
}

// runPFBx: copyAfter as above; hook, when set, is called from inside the
// underlying reader's Read (an I/O point of this decoder) - the duet batch uses
// it to advance a second, independent decoder there.
func runPFBx(data []byte, m pfbModel, sch sim.Schedule, tape *sim.Tape, nextBuf func() int, st *sim.Stats, explain bool, copyAfter int, hook func()) (*sim.Outcome, []pfbRead, pfbObs) {
	src := sim.NewSimReader(data, sch, sim.Fault{}, tape)
	var under io.Reader = src.Reader()
	if hook != nil {
		under = hookedReader{under, hook}
	} else if sch.Seekable {
		// a source that has a Seek method which always fails (a pipe or socket
		// opened as a file): a decoder has no business seeking
		under = unseekable{src}
	}
	r := pfb.Decode(under)
	var got []byte

	var trace []pfbRead
	var termErr error
	pendingShort := -1 // index of a short read with nil error still waiting for "no more data follows"
	var ob pfbObs
	ob.dec = r
	ob.fp = 14695981039346656037
	limit := 4*len(data) + 4*len(m.out) + 64
	calls := 0
	zeroNil := 0
	var scratch []byte
	for {
		if copyAfter >= 0 && calls == copyAfter {
			// the rest goes through io.Copy
			var rest bytes.Buffer
			_, err := io.Copy(&rest, r)
			got = append(got, rest.Bytes()...)
			if explain {
				e := ""
				if err != nil {
					e = err.Error()
				}
				trace = append(trace, pfbRead{-1, rest.Len(), "io.Copy: " + e})
			}
			termErr = err
			if err == nil {
				termErr = io.EOF // io.Copy hides the EOF it stopped at
			}
			if m.wantNonEOF && err == nil {
				termErr = nil
			}
			break
		}
		calls++
		if calls > limit {
			return &sim.Outcome{Class: "no-progress", Key: "pfb:no-progress", Detail: fmt.Sprintf("decoder did not terminate within %d Read calls", limit)}, trace, ob
		}
		k := nextBuf()
		if k%2 == 1 {
			ob.odd = true
		}
		if cap(scratch) < k {
			scratch = make([]byte, k)
		}
		buf := scratch[:k]
		n, err := r.Read(buf)
		ob.fp = (ob.fp ^ uint64(k)<<20 ^ uint64(n+1)) * 1099511628211
		if explain && len(trace) < 200 {
			e := ""
			if err != nil {
				e = err.Error()
			}
			trace = append(trace, pfbRead{k, n, e})
		}
		if n < 0 || n > k {
			return &sim.Outcome{Class: "bad-count", Key: "pfb:bad-count", Detail: fmt.Sprintf("Read(len %d) returned n=%d", k, n)}, trace, ob
		}
		if n > 0 && pendingShort >= 0 {
			return &sim.Outcome{Class: "short-read", Key: "pfb:short-read",
				Detail: fmt.Sprintf("Read #%d returned fewer bytes than the caller's buffer with a nil error although more data followed", pendingShort)}, trace, ob
		}
		got = append(got, buf[:n]...)
		if err != nil {
			termErr = err
			break
		}
		if n < k {
			if n == 0 {
				zeroNil++
				if zeroNil > 32 {
					return &sim.Outcome{Class: "no-progress", Key: "pfb:zero-nil", Detail: "repeated (0, nil) results for a non-empty buffer"}, trace, ob
				}
			}
			if pendingShort < 0 {
				pendingShort = calls
			}
		}
	}
	// "stopping at the end marker": once the decoder has announced the end,
	// reading again must not produce anything more
	if termErr == io.EOF {
		ob.eof = true
		for i := 0; i < 2; i++ {
			buf := make([]byte, 1+nextBuf())
			n, err := r.Read(buf)
			if explain && len(trace) < 200 {
				e := ""
				if err != nil {
					e = err.Error()
				}
				trace = append(trace, pfbRead{len(buf), n, e})
			}
			if n != 0 || err == nil {
				return &sim.Outcome{Class: "data-after-end", Key: "pfb:data-after-end",
					Detail: fmt.Sprintf("after the decoder had returned io.EOF a further Read returned n=%d err=%v (%q)", n, err, clip(buf[:max(n, 0)]))}, trace, ob
			}
		}
	}
	if src.NoProgress {
		return &sim.Outcome{Class: "no-progress", Key: "pfb:src-no-progress", Detail: "decoder kept calling the source after it had ended"}, trace, ob
	}
	st.Add("src_reads", int64(src.Reads))
	st.Add("decoder_reads", int64(calls))
	// output
	if m.prefixOnly {
		if !bytes.HasPrefix(m.out, got) {
			return &sim.Outcome{Class: "wrong-output", Key: "pfb:wrong-output", Detail: fmt.Sprintf("output %q is not a prefix of the model output %q", clip(got), clip(m.out))}, trace, ob
		}
	} else if !bytes.Equal(got, m.out) {
		return &sim.Outcome{Class: "wrong-output", Key: "pfb:wrong-output", Detail: fmt.Sprintf("output %q differs from the model output %q", clip(got), clip(m.out))}, trace, ob
	}
	// terminal condition
	switch {
	case m.wantInvalid:
		if termErr != pfb.ErrInvalidPFB {
			return &sim.Outcome{Class: "wrong-terminal", Key: "pfb:bad-header-not-rejected", Detail: fmt.Sprintf("bad segment header: got %v, want ErrInvalidPFB", termErr)}, trace, ob
		}
	case m.wantNonEOF:
		if termErr == nil || termErr == io.EOF {
			return &sim.Outcome{Class: "short-binary-clean-eof", Key: "pfb:short-binary-clean-eof", Detail: fmt.Sprintf("binary segment shorter than declared ended with %v instead of an error", termErr)}, trace, ob
		}
	case m.wantEOF:
		if termErr != io.EOF {
			return &sim.Outcome{Class: "wrong-terminal", Key: "pfb:wrong-terminal", Detail: fmt.Sprintf("well-formed stream ended with %v, want io.EOF", termErr)}, trace, ob
		}
	}
	return nil, trace, ob
}

// successor: a decoder created after another one has finished is a value of
// its own.  The finished decoder stays finished whatever happens to the new
// one, and the new one delivers its own stream whatever is done to the old.
func successor(old io.Reader, data []byte, m pfbModel, t *sim.Tape) *sim.Outcome {
	rc := pfb.Decode(bytes.NewReader(data))
	var got []byte
	var err error
	buf := make([]byte, 1+t.Choose(7))
	late := func(when string) *sim.Outcome {
		b := make([]byte, 1+t.Choose(9))
		n, e := old.Read(b)
		if n != 0 || e == nil {
			return &sim.Outcome{Class: "data-after-end", Key: "pfb:data-after-end:successor",
				Detail: fmt.Sprintf("a decoder that had returned io.EOF returned n=%d err=%v (%q) when read again %s", n, e, clip(b[:max(n, 0)]), when)}
		}
		return nil
	}
	if out := late("after another decoder had been created"); out != nil {
		return out
	}
	for i := 0; err == nil && i < 4*len(data)+64; i++ {
		var n int
		n, err = rc.Read(buf)
		got = append(got, buf[:n]...)
		if i == 1 {
			if out := late("while another decoder was in use"); out != nil {
				return out
			}
			buf = make([]byte, 4096)
		}
	}
	bad := !bytes.Equal(got, m.out)
	if m.prefixOnly {
		bad = !bytes.HasPrefix(m.out, got)
	}
	if bad {
		return &sim.Outcome{Class: "wrong-output", Key: "pfb:successor", Detail: fmt.Sprintf("a decoder created after another one had finished gave output %q, its stream's model says %q", clip(got), clip(m.out))}
	}
	if m.wantEOF && err != io.EOF || m.wantInvalid && err != pfb.ErrInvalidPFB || m.wantNonEOF && (err == nil || err == io.EOF) {
		return &sim.Outcome{Class: "wrong-terminal", Key: "pfb:successor-terminal", Detail: fmt.Sprintf("a decoder created after another one had finished ended with %v", err)}
	}
	return nil
}

func clip(b []byte) []byte {
	if len(b) > 120 {
		return append(append([]byte{}, b[:120]...), "..."...)
	}
	return b
}

// C14 builds the check for property C14.
func C14() *sim.Check {
	random := &sim.Batch{Name: "streams", Quick: 4_000_000, Thorough: 120_000_000}
	random.Run = func(c *sim.RunCtx) *sim.Outcome {
		t := c.T
		p, an := gen.GenPFB(t, 6, 300, gen.PFBShortBinary, gen.PFBShortText, gen.PFBBadHeader, gen.PFBPartialHeader)
		data := p.Bytes()
		m := modelPFB(p)
		sch := gen.GenSchedule(t, len(data), true)
		nextBuf, bdesc := gen.GenBufSizes(t)
		copyAfter := -1
		if t.Choose(6) == 0 {
			copyAfter = t.Choose(6)
			c.St.Inc("probe_finished_with_io.Copy")
		}
		out, trace, ob := runPFBx(data, m, sch, t, nextBuf, c.St, c.Explain, copyAfter, nil)
		if out == nil && ob.eof && t.Choose(4) == 0 {
			c.St.Inc("probe_successor_decoder")
			out = successor(ob.dec, data, m, t)
		}
		if c.St != nil {
			c.St.Inc(fmt.Sprintf("anomaly_%d", an))
			hasBin := false
			for _, s := range p.Segs {
				if s.Type == 2 && len(s.Data) > 0 {
					hasBin = true
				}
				if s.Declared == 0 {
					c.St.Inc("probe_zero_length_segment")
				}
			}
			if len(p.Trailing) > 0 {
				c.St.Inc("probe_marker_followed_by_garbage")
			}
			if hasBin && ob.odd {
				c.St.Inc("probe_binary_with_odd_buffer")
				c.St.Case(sim.Mix(sim.HashBytes(data), "case", ob.fp))
			}
			c.St.Print(ob.fp)
			c.St.Sample(map[string]any{"pfb_hex": fmt.Sprintf("%x", clip(data)), "segments": len(p.Segs), "anomaly": int(an), "schedule": sch.String(), "caller_buffers": bdesc})
		}
		if out != nil && c.Explain {
			out.Human = map[string]any{"pfb_hex": fmt.Sprintf("%x", data), "segments": p.Segs, "end_marker": p.EndMarker,
				"schedule": sch.String(), "caller_buffers": bdesc, "reads(want,got,err)": trace, "model_output": string(clip(m.out))}
		}
		return out
	}

	// every first-two-byte header value, delivered in one read and as 1+1 bytes,
	// with a fixed small body
	headers := &sim.Batch{Name: "headers", Quick: 65536 * 2, Thorough: 65536 * 2, Enumerated: true}
	headers.Run = func(c *sim.RunCtx) *sim.Outcome {
		v := c.Index >> 1
		b0, b1 := byte(v>>8), byte(v)
		data := []byte{b0, b1, 3, 0, 0, 0, 'a', 0xB2, 'c', 0x80, 3}
		var m pfbModel
		switch {
		case b0 != 0x80 || b1 < 1 || b1 > 3:
			m.wantInvalid = true
		case b1 == 3:
			m.wantEOF = true
		case b1 == 1:
			m.out = []byte{'a', 0xB2, 'c'}
			m.wantEOF = true
		case b1 == 2:
			m.out = []byte("61b263")
			m.wantEOF = true
		}
		sch := sim.Schedule{Mode: sim.ChunkAll}
		if c.Index&1 == 1 {
			sch = sim.Schedule{Mode: sim.ChunkFixed, K: 1}
		}
		out, trace, _ := runPFB(data, m, sch, nil, func() int { return 5 }, c.St, c.Explain)
		if c.St != nil {
			c.St.Inc("headers_enumerated")
			c.St.Case(uint64(c.Index) | 1<<40)
		}
		if out != nil {
			out.Key += fmt.Sprintf(":header=%02x%02x", b0, b1)
			if c.Explain {
				out.Human = map[string]any{"pfb_hex": fmt.Sprintf("%x", data), "schedule": sch.String(), "reads": trace}
			}
		}
		return out
	}

	// two independent decoders advanced alternately at each other's I/O points:
	// whatever one of them does must not disturb the other (no state outside the
	// decoder value)
	duet := &sim.Batch{Name: "duet", Quick: 300_000, Thorough: 8_000_000}
	duet.Run = func(c *sim.RunCtx) *sim.Outcome {
		t := c.T
		pa, _ := gen.GenPFB(t, 5, 120)
		pb, _ := gen.GenPFB(t, 5, 120)
		da, db := pa.Bytes(), pb.Bytes()
		ma, mb := modelPFB(pa), modelPFB(pb)
		// decoder B is driven from inside decoder A's underlying reads
		srcB := sim.NewSimReader(db, sim.Schedule{Mode: sim.ChunkFixed, K: 1 + t.Choose(3)}, sim.Fault{}, nil)
		rb := pfb.Decode(srcB.Reader())
		var gotB []byte
		var errB error
		bufB := make([]byte, 1+t.Choose(5))
		stepB := func() {
			if errB != nil || t.Choose(2) == 0 {
				return
			}
			n, err := rb.Read(bufB)
			gotB = append(gotB, bufB[:n]...)
			errB = err
		}
		nextBuf, _ := gen.GenBufSizes(t)
		out, trace, oba := runPFBx(da, ma, sim.Schedule{Mode: sim.ChunkFixed, K: 1 + t.Choose(3)}, nil, nextBuf, c.St, c.Explain, -1, stepB)
		big := make([]byte, 8192)
		for i := 0; errB == nil && i < 1_000_000; i++ {
			n, err := rb.Read(big)
			gotB = append(gotB, big[:n]...)
			errB = err
		}
		c.St.Inc("duets")
		c.St.Case(sim.Mix(sim.HashBytes(da), "duet", sim.HashBytes(db)))
		if out == nil && (!bytes.Equal(gotB, mb.out) || errB != io.EOF) {
			out = &sim.Outcome{Class: "wrong-output", Key: "pfb:duet", Detail: fmt.Sprintf("a second decoder advanced in between gave output %q / %v, its stream's model says %q / EOF", clip(gotB), errB, clip(mb.out))}
		}
		if out == nil && errB == io.EOF {
			// a third decoder, made when the first two are done
			out = successor(rb, da, ma, t)
			if out == nil && oba.eof {
				out = successor(oba.dec, db, mb, t)
			}
		}
		if out != nil {
			out.Detail = "two decoders advanced alternately: " + out.Detail
			if c.Explain {
				out.Human = map[string]any{"stream_A_hex": fmt.Sprintf("%x", clip(da)), "stream_B_hex": fmt.Sprintf("%x", clip(db)), "reads_A": trace}
			}
		}
		return out
	}

	// segments whose length needs the top bit of the 32-bit length field: the
	// data comes from a virtual source (no 2 GiB buffer), the output is checked
	// by position
	hugeCases := []struct {
		typ byte
		n   int64
	}{{1, 1 << 31}, {1, 1<<31 - 1}, {1, 1<<32 - 1}, {2, 1 << 31}}
	huge := &sim.Batch{Name: "huge-segments", Quick: 1, Thorough: len(hugeCases), Enumerated: true, Serial: true}
	huge.Run = func(c *sim.RunCtx) *sim.Outcome {
		hc := hugeCases[c.Index]
		src := &virtualPFB{typ: hc.typ, n: hc.n}
		r := pfb.Decode(src)
		buf := make([]byte, 3<<20)
		var total int64
		var termErr error
		for {
			n, err := r.Read(buf)
			c.St.Inc("decoder_reads")
			for _, i := range []int{0, n / 2, n - 1} {
				if i < 0 || i >= n {
					continue
				}
				pos := total + int64(i)
				var want byte
				if hc.typ == 1 {
					want = virtualByte(pos)
				} else {
					b := virtualByte(pos / 2)
					want = hexDigits[b>>4]
					if pos%2 == 1 {
						want = hexDigits[b&15]
					}
				}
				if buf[i] != want {
					return &sim.Outcome{Class: "wrong-output", Key: "pfb:huge:wrong-output", Detail: fmt.Sprintf("segment of %d bytes (type %d): output byte %d is %#x, want %#x", hc.n, hc.typ, pos, buf[i], want)}
				}
			}
			total += int64(n)
			if err != nil {
				termErr = err
				break
			}
			if n < len(buf) && total < func() int64 {
				if hc.typ == 2 {
					return 2 * hc.n
				}
				return hc.n
			}() {
				return &sim.Outcome{Class: "short-read", Key: "pfb:huge:short-read", Detail: fmt.Sprintf("Read with a %d-byte buffer returned %d bytes and no error although %d more bytes of output were due", len(buf), n, hc.n-total)}
			}
		}
		wantTotal := hc.n
		if hc.typ == 2 {
			wantTotal = 2 * hc.n
		}
		c.St.Inc("huge_segments_decoded")
		c.St.Case(uint64(c.Index) | 5<<40)
		if termErr != io.EOF || total != wantTotal {
			return &sim.Outcome{Class: "wrong-terminal", Key: "pfb:huge", Detail: fmt.Sprintf("well-formed stream with one segment of %d bytes (type %d): %d output bytes, ended with %v; want %d bytes and io.EOF", hc.n, hc.typ, total, termErr, wantTotal)}
		}
		return nil
	}

	// streams with more segments than any counter of "reasonable" width holds:
	// 70 000 - 140 000 segments of 0-2 bytes (the format has no limit)
	many := &sim.Batch{Name: "many-segments", Quick: 4, Thorough: 24}
	many.Run = func(c *sim.RunCtx) *sim.Outcome {
		t := c.T
		nseg := 66_000 + t.Choose(75_000)
		var data, want []byte
		for i := 0; i < nseg; i++ {
			typ := byte(1 + t.Choose(2))
			l := t.Choose(3)
			if i%7 != 0 {
				l = 0 // mostly empty segments (cheap, and legal)
			}
			data = append(data, 0x80, typ, byte(l), 0, 0, 0)
			for j := 0; j < l; j++ {
				b := byte('a' + (i+j)%26)
				data = append(data, b)
				if typ == 1 {
					want = append(want, b)
				} else {
					want = append(want, "0123456789abcdef"[b>>4], "0123456789abcdef"[b&15])
				}
			}
		}
		if t.Bool(2, 3) {
			data = append(data, 0x80, 3)
		}
		m := pfbModel{out: want, wantEOF: true}
		sch := sim.Schedule{Mode: sim.ChunkFixed, K: []int{6, 7, 4096, 65536}[t.Choose(4)]}
		bs := []int{1, 3, 512, 8192}[t.Choose(4)]
		out, _, _ := runPFB(data, m, sch, nil, func() int { return bs }, c.St, false)
		c.St.Inc("streams_with_more_than_65536_segments")
		c.St.Case(sim.Mix(uint64(nseg), "many", uint64(bs)))
		if out != nil {
			out.Detail = fmt.Sprintf("stream of %d segments: %s", nseg, out.Detail)
			if c.Explain {
				out.Human = map[string]any{"segments": nseg, "schedule": sch.String(), "caller_buffer": bs}
			}
		}
		return out
	}

	return &sim.Check{
		Prop: "C14", Harness: "h_pfb", Level: "exploration",
		Rule:        "streams: a segment list (types 1/2, lengths 0..300, optional end marker, trailing garbage, or one anomaly: short binary/text segment, bad header, partial header) is drawn from the tape together with an underlying delivery schedule and a caller buffer-size sequence; every Read of pfb.Decode is checked against a 30-line reference model. A case is non-trivial when the stream has a non-empty binary segment and at least one odd caller buffer size was used; distinct = distinct (stream bytes, schedule, buffer sequence) hash. headers: all 65536 first-two-byte values x {one read, 1-byte reads}, each counted once. Bad headers are drawn from real file starts (PFA, PDF, OpenType, TrueType, WOFF, AFM, gzip, a PFB shifted by one byte) one time in four; one stream in six is finished with io.Copy after 0-5 Reads; duet: a second decoder is advanced from inside the first one's source reads; successor decoders: after a decoder has returned io.EOF a new one is made for another stream, the finished one is read again (must stay finished) and the new one must deliver its own stream; huge-segments: 2 GiB / 4 GiB-1 segments from a virtual source, read with a 3 MiB buffer; many-segments: streams of 66 000 - 141 000 segments. A bad header may also be a stray byte (line end, NUL, blank, doubled marker) in front of an otherwise good later segment.",
		Assume:      []string{"the reference model in harness/h_pfb.go is the specification of PFB framing", "underlying readers never return (0, nil) for a non-empty buffer"},
		RealStub:    map[string]any{"real": []string{"pfb.Decode (unmodified /repo code)", "io.ReadFull"}, "stub": []string{"underlying reader (SimReader)", "caller (buffer-size sequence)"}},
		Batches:     []*sim.Batch{headers, huge, many, duet, random},
		SimTimeUnit: "Read calls: caller -> decoder and decoder -> simulated source", SimTimeCounters: []string{"src_reads", "decoder_reads"},
		Probes: []string{"probe_zero_length_segment", "probe_marker_followed_by_garbage", "probe_binary_with_odd_buffer", "anomaly_1", "anomaly_2", "anomaly_3", "anomaly_4"},
	}
}

func u32bytes(v []uint32) []byte {
	b := make([]byte, 0, 4*len(v))
	for _, x := range v {
		b = append(b, byte(x), byte(x>>8), byte(x>>16), byte(x>>24))
	}
	return b
}

// virtualPFB is a PFB stream with one segment of n bytes followed by the end
// marker; the segment's bytes are a function of their position.
type virtualPFB struct {
	typ byte
	n   int64
	pos int64 // position in the whole stream
}

func virtualByte(i int64) byte { return byte(i%251) ^ byte(i>>20) }

func (v *virtualPFB) Read(p []byte) (int, error) {
	total := 6 + v.n + 2
	if v.pos >= total {
		return 0, io.EOF
	}
	n := 0
	for n < len(p) && v.pos < total {
		switch {
		case v.pos < 6:
			h := [6]byte{0x80, v.typ, byte(v.n), byte(v.n >> 8), byte(v.n >> 16), byte(v.n >> 24)}
			p[n] = h[v.pos]
			n++
			v.pos++
		case v.pos < 6+v.n:
			// fill a run of data bytes
			run := min(int64(len(p)-n), 6+v.n-v.pos)
			base := v.pos - 6
			for k := int64(0); k < run; k++ {
				p[n+int(k)] = virtualByte(base + k)
			}
			n += int(run)
			v.pos += run
		default:
			m := [2]byte{0x80, 3}
			p[n] = m[v.pos-6-v.n]
			n++
			v.pos++
		}
	}
	return n, nil
}

// unseekable is a reader whose Seek method always fails.
type unseekable struct{ r *sim.SimReader }

func (u unseekable) Read(p []byte) (int, error) { return u.r.Read(p) }
func (u unseekable) Seek(int64, int) (int64, error) {
	return 0, fmt.Errorf("seek: illegal seek")
}

// hookedReader calls hook before every Read of the underlying source.
type hookedReader struct {
	r    io.Reader
	hook func()
}

func (h hookedReader) Read(p []byte) (int, error) {
	h.hook()
	return h.r.Read(p)
}
