package harness

import (
	"bufio"
	"bytes"
	"fmt"
	"io"
	"strings"
	"testing/iotest"

	"seehuhn.de/go/postscript"

	"verif/dump"
	"verif/gen"
	"verif/sim"
)

var allSurfaces = []Surface{SurfPS, SurfPS, SurfPS, SurfCMap, SurfFont, SurfFont, SurfAFM, SurfPFB}

// refResult computes the reference outcome: everything in one Read, seekable.
func refResult(in *Input) (res string, err string, ok bool) {
	r := sim.NewSimReader(in.withOffset(), gen.RefSchedule(), sim.Fault{}, nil)
	r.SetPos(in.Offset)
	d, e, p := safeConsume(in.Surf, r.Reader(), nil)
	if p != nil {
		return "", "", false // a crash on the plain input is C01's business, not delivery
	}
	return d, dump.Err(e), true
}

// orderDependent tells whether the result of reading the input is not a
// function of its bytes at all: PostScript leaves the order in which forall
// visits a dictionary open, and the interpreter follows Go's map order, so a
// program that iterates a dictionary with a body that leaves things behind
// gives different results from run to run under one and the same delivery.
// The generators never write such programs, but damage (deleted or flipped
// bytes) can produce one.  Two tests, either suffices: the program is run once
// more behind a prologue that makes forall report dictionary operands, and the
// reference delivery is repeated.
func orderDependent(in *Input, st *sim.Stats) (dep bool) {
	defer func() {
		if dep {
			st.Inc("skipped_inputs_iterating_a_dictionary(order left open by PostScript)")
		}
	}()
	if len(in.Data) > 0 && in.Data[0] != 0x80 && in.Surf != SurfAFM && in.Surf != SurfPFB {
		func() {
			defer func() { recover() }()
			ip := postscript.NewInterpreter()
			ip.MaxOps = 4_000_000
			ip.ExecuteString("userdict /forall { mark 2 index type /dicttype eq { userdict /VERIF-dict-forall true put } if cleartomark systemdict /forall get exec } put")
			ip.Execute(bytes.NewReader(in.Data))
			if _, seen := ip.UserDict["VERIF-dict-forall"]; seen {
				dep = true
			}
		}()
		if dep {
			return true
		}
	}
	first, firstErr, ok := refResult(in)
	for i := 0; ok && i < 12; i++ {
		d, e, ok2 := refResult(in)
		if !ok2 || d != first || e != firstErr {
			return true
		}
	}
	return false
}

func (in *Input) withOffset() []byte {
	if in.Offset == 0 {
		return in.Data
	}
	pre := make([]byte, in.Offset)
	for i := range pre {
		pre[i] = byte(0x80 + i%7) // would look like a PFB header if it were read
	}
	return append(pre, in.Data...)
}

// underSchedule runs the input under sch and compares with the reference.
func underSchedule(in *Input, refRes, refErr string, sch sim.Schedule, tape *sim.Tape, bufs func() int, st *sim.Stats, explain bool) *sim.Outcome {
	data := in.withOffset()
	if sch.Mode == sim.ChunkSplit {
		sch.K += in.Offset
	}
	r := sim.NewSimReader(data, sch, sim.Fault{}, tape)
	if in.Offset > 0 {
		if !sch.Seekable {
			// a non-seekable stream cannot be "positioned": the caller has
			// consumed the prefix
			r = sim.NewSimReader(in.Data, sch, sim.Fault{}, tape)
		} else {
			r.SetPos(in.Offset)
		}
	}
	d, e, p := safeConsume(in.Surf, r.Reader(), bufs)
	st.Add("sim_read_calls", int64(r.Reads))
	st.Add("sim_seek_calls", int64(r.Seeks))
	human := func() map[string]any {
		if !explain {
			return nil
		}
		return map[string]any{"surface": in.Surf.String(), "input": printable(in.Data), "input_desc": in.Desc, "schedule": sch.String(), "start_offset": in.Offset,
			"reference(one read, seekable)": refErr + " " + clipS(refRes, 600), "under_schedule": dump.Err(e) + " " + clipS(d, 600)}
	}
	key := "deliver:" + in.Surf.String()
	if p != nil {
		return &sim.Outcome{Class: "panic-under-schedule", Key: key + ":panic", Detail: fmt.Sprintf("%s panicked under schedule %s but not under the reference delivery: %v", in.Surf, sch, p), Human: human()}
	}
	if r.NoProgress {
		return &sim.Outcome{Class: "no-progress", Key: key + ":no-progress", Detail: fmt.Sprintf("%s kept calling Read without end under schedule %s", in.Surf, sch), Human: human()}
	}
	if de := dump.Err(e); d != refRes || de != refErr {
		if orderDependent(in, st) {
			return nil
		}
		return &sim.Outcome{Class: "delivery-dependent", Key: key,
			Detail: fmt.Sprintf("%s: result under schedule %s differs from the one-read delivery: %s", in.Surf, sch, firstDiff(de+" "+d, refErr+" "+refRes)), Human: human()}
	}
	if r.MultiChunk && len(in.Data) >= 16 {
		st.Case(sim.Mix(sim.HashBytes(in.Data), in.Surf.String(), r.Fingerprint()))
	}
	st.Print(r.Fingerprint())
	if !sch.Seekable && in.Surf == SurfFont {
		st.Inc("probe_font_nonseekable_peek")
	}
	if sch.EOFWithData {
		st.Inc("probe_eof_with_data")
		st.Inc("fired_eof_with_data")
	}
	if r.MultiChunk {
		st.Inc("fired_short_reads_delivery")
	}
	if !sch.Seekable {
		st.Inc("fired_non_seekable_source")
	}
	return nil
}

func clipS(s string, n int) string {
	if len(s) > n {
		return s[:n] + "..."
	}
	return s
}

func nearMark(marks []int, k int) bool {
	for _, m := range marks {
		if k >= m-2 && k <= m+2 {
			return true
		}
	}
	return false
}

// C12 builds the check for property C12.
func C12() *sim.Check {
	// random schedules ----------------------------------------------------
	sched := &sim.Batch{Name: "schedules", Quick: 80_000, Thorough: 4_000_000}
	sched.Run = func(c *sim.RunCtx) *sim.Outcome {
		t := c.T
		in := genInput(t, allSurfaces, c.St)
		if in.Surf == SurfFont && t.Bool(1, 4) {
			in.Offset = 1 + t.Choose(40)
		}
		refRes, refErr, ok := refResult(in)
		if !ok {
			c.St.Inc("skipped_reference_panics(C01)")
			return nil
		}
		c.St.Inc("inputs_" + in.Surf.String())
		for i := 0; i < 4; i++ {
			sch := gen.GenSchedule(t, len(in.Data), true)
			if len(in.Marks) > 0 && t.Bool(1, 3) {
				sch.Mode, sch.K = sim.ChunkSplit, max(0, min(len(in.Data), sim.Pick(t, in.Marks)+t.Range(-2, 2)))
			}
			// the caller side of pfb.Decode keeps the reference pattern (512-byte
			// buffers): what is varied here is the underlying delivery only;
			// caller buffer patterns are C14's subject
			var bufs func() int
			if sch.Mode == sim.ChunkSplit && nearMark(in.Marks, sch.K) {
				c.St.Inc("probe_split_at_structural_boundary")
			}
			if out := underSchedule(in, refRes, refErr, sch, t, bufs, c.St, c.Explain); out != nil {
				return out
			}
			c.St.Inc("scheduled_runs")
		}
		// the standard library's own reader types (they implement further
		// interfaces - io.ByteReader, io.WriterTo, io.Seeker - that a library
		// may single out)
		if in.Offset == 0 {
			kinds := []string{"bytes.Reader", "strings.Reader", "bytes.Buffer", "bufio.Reader", "iotest.DataErrReader", "iotest.OneByteReader", "iotest.HalfReader"}
			kind := kinds[t.Choose(len(kinds))]
			if kind == "iotest.DataErrReader" && len(in.Data) > 0 && in.Data[0] == 0x80 {
				// iotest.DataErrReader loops for ever on a zero-length Read, which the
				// PFB decoder legitimately issues for empty text segments
				kind = "iotest.HalfReader"
			}
			d, e, p := safeConsume(in.Surf, stdReader(kind, in.Data), nil)
			c.St.Inc("fired_std_reader_" + kind)
			if (p != nil || d != refRes || dump.Err(e) != refErr) && !orderDependent(in, c.St) {
				out := &sim.Outcome{Class: "delivery-dependent", Key: "deliver:" + in.Surf.String() + ":" + kind,
					Detail: fmt.Sprintf("%s: result when reading from a %s differs from the one-read simulated delivery: %s (panic: %v)", in.Surf, kind, firstDiff(dump.Err(e)+" "+d, refErr+" "+refRes), p)}
				if c.Explain {
					out.Human = map[string]any{"surface": in.Surf.String(), "input": printable(in.Data), "input_desc": in.Desc, "reader": kind}
				}
				return out
			}
		}
		c.St.Sample(map[string]any{"surface": in.Surf.String(), "input_desc": in.Desc, "bytes": len(in.Data), "input_head": printable(in.Data[:min(len(in.Data), 160)])})
		return nil
	}

	// every two-chunk split position --------------------------------------
	splits := &sim.Batch{Name: "all-splits", Quick: 450, Thorough: 25_000}
	splits.Run = func(c *sim.RunCtx) *sim.Outcome {
		t := c.T
		in := genInput(t, allSurfaces, c.St)
		refRes, refErr, ok := refResult(in)
		if !ok {
			c.St.Inc("skipped_reference_panics(C01)")
			return nil
		}
		n := len(in.Data)
		var ps []int
		// an input that runs into the reader's own operation budget (millions of
		// operations per call) is read at a sample of positions only
		expensive := strings.Contains(refErr, "ErrExecutionLimitExceeded")
		if expensive {
			c.St.Inc("expensive_inputs_sampled_only")
		}
		// ... and so is a very large one (a megabyte of AFM text has more than a
		// million split positions at tens of milliseconds each)
		if n > 40_000 {
			expensive = true
			c.St.Inc("large_inputs_sampled_only")
		}
		if !expensive && (c.Tier == "thorough" || n <= 400) {
			for p := 0; p <= n; p++ {
				ps = append(ps, p)
			}
			c.St.Inc("inputs_with_every_split_position")
		} else {
			k := 64
			if expensive {
				k = 12
			}
			if n > 40_000 && !strings.Contains(refErr, "ErrExecutionLimitExceeded") {
				k = 400
			}
			for i := 0; i < k; i++ {
				ps = append(ps, t.Choose(n+1))
			}
			if expensive && n <= 40_000 {
				in.Marks = nil
			}
			for _, m := range in.Marks {
				for d := -2; d <= 2; d++ {
					if m+d >= 0 && m+d <= n {
						ps = append(ps, m+d)
					}
				}
			}
		}
		eof := t.Bool(1, 2)
		seek := t.Bool(1, 2)
		for _, p := range ps {
			sch := sim.Schedule{Mode: sim.ChunkSplit, K: p, EOFWithData: eof, Seekable: seek}
			var bufs func() int
			if nearMark(in.Marks, p) {
				c.St.Inc("probe_split_at_structural_boundary")
			}
			if out := underSchedule(in, refRes, refErr, sch, nil, bufs, c.St, c.Explain); out != nil {
				return out
			}
			c.St.Inc("scheduled_runs")
		}
		return nil
	}

	// multi-call Execute --------------------------------------------------
	multi := &sim.Batch{Name: "multicall", Quick: 100_000, Thorough: 4_000_000}
	multi.Run = func(c *sim.RunCtx) *sim.Outcome {
		t := c.T
		o := gen.PSOpts{MaxTokens: 70, DSC: t.Bool(1, 2), Errors: 6, MaxAlloc: 100, Hostile: false}
		p := gen.GenPS(t, o)
		if t.Choose(5) == 0 {
			// a CMap resource file is a program too: cut it at line ends (its
			// hex strings and comments never span lines)
			file := gen.GenCMapFile(t, 1+t.Choose(2))
			p = &gen.PSProg{Src: file}
			for i, b := range file {
				if b == '\n' && i+1 < len(file) {
					p.Gaps = append(p.Gaps, i+1)
				}
			}
			c.St.Inc("multicall_cmap_files")
		}
		if p.HasFiles || p.HasStop || len(p.Gaps) == 0 {
			c.St.Inc("multicall_not_applicable")
			return nil
		}
		src := p.Src
		gaps := p.Gaps
		// with the %! start check enabled the equivalence must hold as well (the
		// check is made once, on the first call)
		checkStart := t.Bool(1, 3)
		if checkStart {
			hdr := []string{"%!\n", "%!PS-Adobe-3.0\n"}[t.Choose(2)]
			src = append([]byte(hdr), src...)
			gaps = make([]int, len(p.Gaps))
			for i, g := range p.Gaps {
				gaps[i] = g + len(hdr)
			}
			c.St.Inc("multicall_with_start_check")
		}
		// the operation budget is part of the interpreter's state too: it must
		// apply to the concatenation, not to each call
		budget := []int{psSafetyBudget, psSafetyBudget, 40, 150, 600}[t.Choose(5)]
		mk := func() *postscript.Interpreter {
			in := newInterp(budget)
			in.CheckStart = checkStart
			return in
		}
		var one *psExec
		func() {
			defer func() {
				if recover() != nil {
					one = nil
				}
			}()
			one = runPS(mk(), src, gen.RefSchedule(), nil, sim.Fault{}, nil)
		}()
		if one == nil {
			c.St.Inc("skipped_reference_panics(C01)")
			return nil // the program crashes the interpreter in one call already: C01's business
		}
		k := 1 + t.Choose(4)
		var cuts []int
		for i := 0; i < k; i++ {
			cuts = append(cuts, sim.Pick(t, gaps))
		}
		sch := sim.Schedule{Mode: sim.ChunkAll}
		if t.Bool(1, 3) {
			sch = gen.GenSchedule(t, len(src), false)
			if sch.Mode == sim.ChunkRandom {
				sch.Mode, sch.K = sim.ChunkFixed, 3
			}
		}
		many := runPS(mk(), src, sch, cuts, sim.Fault{}, nil)
		dmp := dump.Interp
		if one.Err != nil {
			// Execute appends a call's DSC comments only when the call succeeds:
			// after a failing call the list depends on the split
			dmp = dump.InterpNoDSC
		}
		a, b := dump.Err(one.Err)+"\n"+dmp(one.In), dump.Err(many.Err)+"\n"+dmp(many.In)
		c.St.Inc("multicall_histories")
		if many.Calls > 1 {
			c.St.Case(sim.Mix(sim.HashBytes(src), "calls", many.Print))
		}
		// was a cut inside an open procedure body?
		for _, cut := range cuts {
			depth := 0
			for _, ch := range src[:min(cut, len(src))] {
				if ch == '{' {
					depth++
				} else if ch == '}' {
					depth--
				}
			}
			if depth > 0 {
				c.St.Inc("probe_cut_inside_open_procedure")
			}
		}
		if a != b {
			out := &sim.Outcome{Class: "call-split-dependent", Key: "deliver:multicall",
				Detail: fmt.Sprintf("feeding the program in %d calls (cuts %v) differs from one call: %s", many.Calls, cuts, firstDiff(b, a))}
			if c.Explain {
				out.Human = map[string]any{"program": printable(src), "start_check": checkStart, "cuts": cuts, "pieces": pieces(src, cuts), "schedule": sch.String(), "one_call": clipS(a, 500), "several_calls": clipS(b, 500)}
			}
			return out
		}
		return nil
	}

	return &sim.Check{
		Prop: "C12", Harness: "h_deliver", Level: "exploration",
		Rule:        "An input (program incl. eexec tails, CMap file, Type 1 font in 4 formats optionally re-laid-out / positioned mid-stream, AFM text, PFB stream; 1 in 6 damaged) is drawn and read once under the reference delivery (one Read, seekable); then under drawn schedules (fixed k, random, alternating, two-chunk split, cut lists, EOF with data, seekable or not) and in batch all-splits under EVERY two-chunk split position (thorough; 64 sampled + structural boundaries in quick for inputs > 400 bytes). Oracle: canonical dump of (result, error) equal to the reference; no panic; no unbounded Read calls. multicall: a program without stop/currentfile operators is fed in 2-5 Execute calls cut at white-space gaps (also inside open procedure bodies) and compared with one call. distinct_nontrivial counts distinct (input hash, surface, delivered chunk sequence fingerprint) with >= 2 non-empty chunks and input >= 16 bytes, plus distinct multi-call histories with > 1 call.",
		Assume:      []string{"readers never return (0, nil)", "a panic on the reference delivery is an input problem (C01, not claimed) and the input is skipped", "DSC comments are compared across call splits only when the run succeeds (Execute drops a failing call's comments)"},
		RealStub:    map[string]any{"real": []string{"Interpreter.Execute, ReadCMap, type1.Read, afm.Read, pfb.Decode and everything below them (unmodified /repo code)", "bufio.Scanner, io.ReadFull"}, "stub": []string{"the io.Reader / io.ReadSeeker handed to the library (SimReader)", "caller of pfb.Decode (buffer sizes)"}},
		Batches:     []*sim.Batch{sched, multi, splits},
		SimTimeUnit: "simulated Read and Seek calls served to the library", SimTimeCounters: []string{"sim_read_calls", "sim_seek_calls"},
		Probes: []string{"probe_split_at_structural_boundary", "probe_font_nonseekable_peek", "probe_eof_with_data", "probe_cut_inside_open_procedure", "inputs_with_every_split_position", "fonts_relaid_out"},
	}
}

func pieces(src []byte, cuts []int) []string {
	var out []string
	for _, p := range splitAt(src, cuts) {
		out = append(out, printable(p))
	}
	return out
}

var _ = postscript.ErrNoPostScript

func stdReader(kind string, data []byte) io.Reader {
	switch kind {
	case "bytes.Reader":
		return bytes.NewReader(data)
	case "strings.Reader":
		return strings.NewReader(string(data))
	case "bytes.Buffer":
		return bytes.NewBuffer(append([]byte{}, data...))
	case "bufio.Reader":
		return bufio.NewReaderSize(bytes.NewReader(data), 16)
	case "iotest.DataErrReader":
		return iotest.DataErrReader(bytes.NewReader(data))
	case "iotest.OneByteReader":
		return iotest.OneByteReader(bytes.NewReader(data))
	default:
		return iotest.HalfReader(bytes.NewReader(data))
	}
}
