package harness

import (
	"bytes"
	"fmt"
	"math"
	"strings"
	"syscall"

	"seehuhn.de/go/postscript"
	"seehuhn.de/go/postscript/type1"

	"verif/dump"
	"verif/gen"
	"verif/sim"
)

const c11Big = 30000

func c11Opts(t *sim.Tape) gen.PSOpts {
	o := gen.PSOpts{MaxTokens: 80, Errors: 6, DSC: false, MaxAlloc: 30, Runaway: true, PlainLex: t.Bool(2, 3)}
	o.Files = t.Bool(1, 4)
	o.Stop = t.Bool(1, 4)
	o.Hostile = t.Bool(1, 3)
	return o
}

// sweepProgram checks one program at every interruption point.
func sweepProgram(c *sim.RunCtx, src []byte, wellBehaved bool, gaps []int, nontrivial bool) (out *sim.Outcome) {
	t := c.T
	st := c.St
	// a program that makes the interpreter panic is an input problem (property
	// C01, not claimed by this technique), whatever the budget: skip it
	defer func() {
		if p := recover(); p != nil {
			st.Inc("skipped_panicking_programs(C01)")
			out = nil
		}
	}()
	// a program that iterates a dictionary (after an error has left one on the
	// stack where the generator meant an array to be) has no single outcome:
	// PostScript leaves the order open and the interpreter follows Go's map
	// order.  Such programs are outside what "the state it reaches" can mean.
	if iteratesDict(src, gen.RefSchedule(), nil, false) {
		st.Inc("skipped_programs_iterating_a_dictionary(order left open by PostScript)")
		return nil
	}
	// reference: large safety budget, everything in one read
	ref := runPS(newInterp(c11Big), src, gen.RefSchedule(), nil, sim.Fault{}, nil)
	T := ref.In.NumOps
	runaway := ref.Err == postscript.ErrExecutionLimitExceeded
	var refDump, refErr string
	if !runaway {
		refDump, refErr = dump.Interp(ref.In), dump.Err(ref.Err)
		// the true reference: no budget at all
		nb := runPS(newInterp(0), src, gen.RefSchedule(), nil, sim.Fault{}, nil)
		if d, e := dump.Interp(nb.In), dump.Err(nb.Err); d != refDump || e != refErr {
			return &sim.Outcome{Class: "budget-changes-result", Key: "budget:big-vs-none",
				Detail: fmt.Sprintf("a budget of %d that is never reached changes the outcome of a %d-operation program: %s", c11Big, T, firstDiff(e+"\n"+d, refErr+"\n"+refDump)),
				Human:  map[string]any{"program": printable(src)}}
		}
	} else {
		st.Inc("runaway_programs")
		T = c11Big
	}
	st.Add("reference_ops", int64(T))

	// a few delivery schedules and call splits shared by the cut points
	nsch := 3
	schs := make([]sim.Schedule, nsch)
	cuts := make([][]int, nsch)
	goOn := make([]bool, nsch) // the history continues after a call that failed with a PostScript error
	for i := range schs {
		schs[i] = gen.GenSchedule(t, len(src), false)
		if schs[i].Mode == sim.ChunkRandom {
			schs[i].Mode, schs[i].K = sim.ChunkFixed, 1+t.Choose(7)
		}
		if wellBehaved && len(gaps) > 0 && t.Bool(1, 2) {
			for k := 1 + t.Choose(3); k > 0; k-- {
				cuts[i] = append(cuts[i], sim.Pick(t, gaps))
			}
			goOn[i] = t.Bool(1, 2)
		}
	}

	// per-configuration references: the budgeted run is compared with the
	// unbudgeted run under the SAME delivery and call split, so that a result
	// that depends on delivery (property C12) is not blamed on the budget
	refD := make([]string, nsch)
	refE := make([]string, nsch)
	refT := make([]int, nsch)
	cfgRunaway := make([]bool, nsch)
	for i := range schs {
		refT[i] = T
		cfgRunaway[i] = runaway
		if (len(cuts[i]) > 0 || goOn[i]) && iteratesDict(src, schs[i], cuts[i], goOn[i]) {
			// only this call history reaches the dictionary: leave the program
			// alone altogether
			st.Inc("skipped_programs_iterating_a_dictionary(order left open by PostScript)")
			return nil
		}
		if runaway {
			continue
		}
		if goOn[i] {
			// a history that goes on after an error may reach code the one-call
			// run never saw (e.g. an endless loop): find out under the safety budget
			rb := runPSHistory(newInterp(c11Big), src, schs[i], cuts[i], sim.Fault{}, nil, true)
			if rb.Err == postscript.ErrExecutionLimitExceeded {
				cfgRunaway[i] = true
				refT[i] = c11Big
				continue
			}
		}
		r := runPSHistory(newInterp(0), src, schs[i], cuts[i], sim.Fault{}, nil, goOn[i])
		refD[i], refE[i], refT[i] = dump.Interp(r.In), dump.Err(r.Err)+r.Trail, r.In.NumOps
		if goOn[i] && r.Calls > 1 && r.Trail != "" {
			st.Inc("probe_history_continues_after_postscript_error")
		}
		if !goOn[i] && (refT[i] != T || refD[i] != refDump || refE[i] != refErr) {
			st.Inc("delivery_dependent_reference(C12 business)")
		}
	}

	// the cut points: all of 1..T+2, or a sample for long runs
	var ns []int
	hi := T + 2
	if runaway {
		hi = T - 1
	}
	if hi <= 1500 {
		for n := 1; n <= hi; n++ {
			ns = append(ns, n)
		}
	} else {
		for i := 0; i < 300; i++ {
			ns = append(ns, 1+t.Choose(hi))
		}
		for n := 1; n <= 40; n++ {
			ns = append(ns, n)
		}
		if !runaway {
			for n := T - 3; n <= T+2; n++ {
				ns = append(ns, n)
			}
		}
	}
	if !runaway {
		// budgets at the far end of the range: arithmetic on them must not wrap
		ns = append(ns, math.MaxInt, math.MaxInt-1, 1<<31, 1<<32+1)
	}
	// the budget may also be set (or changed) between two calls on the same
	// interpreter: it then applies to the cumulative count from there on
	if wellBehaved && !runaway && len(gaps) > 0 {
		cut := sim.Pick(t, gaps)
		ps := splitAt(src, []int{cut})
		if len(ps) == 2 && !iteratesDict(src, gen.RefSchedule(), []int{cut}, false) {
			probe := newInterp(0)
			if e1 := probe.Execute(bytes.NewReader(ps[0])); e1 == nil {
				n1 := probe.NumOps
				full := runPS(newInterp(0), src, gen.RefSchedule(), []int{cut}, sim.Fault{}, nil)
				Tc := full.In.NumOps
				fullD, fullE := dump.Interp(full.In), dump.Err(full.Err)
				for _, N := range []int{1, n1 - 1, n1, n1 + 1, n1 + 3, Tc - 1, Tc, Tc + 2} {
					if N < 1 {
						continue
					}
					in := newInterp(0)
					if in.Execute(bytes.NewReader(ps[0])) != nil {
						break
					}
					in.MaxOps = N
					err := in.Execute(bytes.NewReader(ps[1]))
					st.Inc("probe_budget_set_between_calls")
					human := map[string]any{"program": printable(src), "first_call": printable(ps[0]), "ops_after_first_call": n1, "budget_set_before_second_call": N, "ops_of_both_calls": Tc, "NumOps": in.NumOps, "error": dump.Err(err)}
					if N >= Tc {
						if d, e := dump.Interp(in), dump.Err(err); d != fullD || e != fullE {
							return &sim.Outcome{Class: "budget-changes-result", Key: "budget:set-between-calls", Detail: fmt.Sprintf("budget %d set after the first call (%d operations so far, %d in total) changes the outcome: %s", N, n1, Tc, firstDiff(e+"\n"+d, fullE+"\n"+fullD)), Human: human}
						}
						continue
					}
					if Tc == n1 {
						continue // the second call executes nothing
					}
					want := max(N, n1) + 1
					if err != postscript.ErrExecutionLimitExceeded || in.NumOps != want {
						return &sim.Outcome{Class: "budget-not-enforced", Key: "budget:set-between-calls", Detail: fmt.Sprintf("budget %d set after the first call (%d operations so far, %d needed in total): the second call ended with %s and NumOps=%d, want the budget error at %d", N, n1, Tc, dump.Err(err), in.NumOps, want), Human: human}
					}
				}
			}
		}
	}
	for _, N := range ns {
		if N < 1 {
			continue
		}
		k := N % nsch
		if N > c11Big {
			// a budget beyond the runaway threshold is only meaningful for a
			// configuration under which the program ends by itself (a history that
			// goes on after an error may loop where the plain run does not)
			for j := 0; j < nsch && cfgRunaway[k]; j++ {
				k = (k + 1) % nsch
			}
			if cfgRunaway[k] {
				continue
			}
		}
		ex := runPSHistory(newInterp(N), src, schs[k], cuts[k], sim.Fault{}, nil, goOn[k])
		st.Inc("budgeted_runs")
		st.Inc("fired_budget_interruption")
		st.Add("sim_ticks", int64(ex.In.NumOps))
		st.Add("sim_read_calls", int64(ex.Reads))
		if ex.Calls > 1 {
			st.Inc("probe_budget_spans_execute_calls")
		}
		st.Print(sim.Mix(ex.Print, "n", uint64(N)))
		human := func() map[string]any {
			return map[string]any{"program": printable(src), "budget_N": N, "reference_ops_T": T, "schedule": schs[k].String(), "call_cuts": cuts[k],
				"NumOps": ex.In.NumOps, "error": dump.Err(ex.Err)}
		}
		if ex.NoProg {
			return &sim.Outcome{Class: "no-progress", Key: "budget:no-progress", Detail: "interpreter kept reading after the source had ended", Human: human()}
		}
		T := refT[k]
		runaway := cfgRunaway[k]
		if runaway && N >= c11Big {
			continue
		}
		if !runaway && N >= T {
			d, e := dump.Interp(ex.In), dump.Err(ex.Err)+ex.Trail
			refDump, refErr := refD[k], refE[k]
			if ex.In.NumOps != T || d != refDump || e != refErr {
				return &sim.Outcome{Class: "budget-changes-result", Key: "budget:changes-result",
					Detail: fmt.Sprintf("budget N=%d >= ops(P)=%d but the outcome differs from the unbudgeted run (NumOps=%d): %s", N, T, ex.In.NumOps, firstDiff(e+"\n"+d, refErr+"\n"+refDump)),
					Human:  human()}
			}
			continue
		}
		// N < T: the budget must fire, exactly at N+1
		if nontrivial {
			st.Case(sim.Mix(sim.HashBytes(src), "cut", uint64(N)))
		}
		if ex.Err != postscript.ErrExecutionLimitExceeded {
			return &sim.Outcome{Class: "budget-not-enforced", Key: "budget:not-enforced",
				Detail: fmt.Sprintf("budget N=%d < ops(P)=%d but the run ended with %s after %d counted operations", N, T, dump.Err(ex.Err), ex.In.NumOps),
				Human:  human()}
		}
		if ex.In.NumOps != N+1 {
			return &sim.Outcome{Class: "budget-count", Key: "budget:count",
				Detail: fmt.Sprintf("budget N=%d: NumOps=%d after the limit fired, want exactly N+1=%d", N, ex.In.NumOps, N+1),
				Human:  human()}
		}
	}
	return nil
}

// iteratesDict runs the program once more (same delivery and call history)
// behind a prologue that makes forall report dictionary operands.
func iteratesDict(src []byte, sch sim.Schedule, cuts []int, goOn bool) (yes bool) {
	defer func() {
		if recover() != nil {
			yes = false
		}
	}()
	in := newInterp(c11Big)
	in.ExecuteString("userdict /forall { mark 2 index type /dicttype eq { userdict /VERIF-dict-forall true put } if cleartomark systemdict /forall get exec } put")
	in.NumOps = 0
	runPSHistory(in, src, sch, cuts, sim.Fault{}, nil, goOn)
	_, yes = in.UserDict["VERIF-dict-forall"]
	return yes
}

func newInterp(maxOps int) *postscript.Interpreter {
	in := postscript.NewInterpreter()
	in.MaxOps = maxOps
	return in
}

// limitShape is a program whose resource use must be cut off by a PostScript
// error (or, where no resource grows, by nothing but the budget).
type limitShape struct {
	name string
	src  string
	// want lists acceptable PostScript error names; "" accepts a normal end,
	// "budget" accepts the operation budget (shapes that loop without growing).
	want  []string
	heavy bool
	// surf selects a reader that sets its own budget (empty: Interpreter.Execute)
	surf string
}

// eexecShape returns a program that fills the dictionary stack to depth n and
// then runs body inside an eexec section.
func eexecShape(n int, body string, binary bool) string {
	head := strings.Repeat("userdict begin ", n-2) + "\n"
	return string(gen.WrapEexec(sim.ReplayTape([]uint32{7, 7, 7, 7}), []byte(head), []byte(body+"\n"), nil, binary))
}

func init() {
	for _, n := range []int{19, 20} {
		for _, bin := range []bool{false, true} {
			limitShapes = append(limitShapes,
				limitShape{fmt.Sprintf("begin-loop-inside-eexec-at-depth-%d-binary-%t", n, bin), eexecShape(n, "{ userdict begin } loop", bin), []string{"dictstackoverflow"}, false, ""},
				limitShape{fmt.Sprintf("begin-recursion-inside-eexec-at-depth-%d-binary-%t", n, bin), eexecShape(n, "/f { 1 dict begin f end } def f", bin), []string{"dictstackoverflow", "execstackoverflow"}, false, ""})
		}
	}
	// operators that push onto the dictionary stack themselves and fail
	// afterwards, under an error handler that lets the program go on: whatever
	// they pushed must not stay (or the growth must be cut off)
	for _, bin := range []bool{false, true} {
		limitShapes = append(limitShapes,
			limitShape{fmt.Sprintf("failing-nested-eexec-repeated-under-handler-binary-%t", bin), eexecShape(3, "errordict /invalidaccess { } put 3000 { currentfile eexec } repeat", bin), []string{"", "dictstackoverflow"}, false, ""},
			limitShape{fmt.Sprintf("failing-nested-eexec-loop-under-handler-binary-%t", bin), eexecShape(3, "errordict /invalidaccess { } put { currentfile eexec } loop", bin), []string{"dictstackoverflow", "budget"}, false, ""})
	}
	// growth inside an encrypted section, and nesting that passes through one
	// encrypted section per level
	for _, bin := range []bool{false, true} {
		limitShapes = append(limitShapes,
			limitShape{fmt.Sprintf("loop-push-inside-eexec-binary-%t", bin), eexecShape(3, "{ 1 } loop", bin), []string{"stackoverflow"}, false, ""},
			limitShape{fmt.Sprintf("for-push-inside-eexec-binary-%t", bin), eexecShape(3, "0 1 100000 { } for", bin), []string{"stackoverflow"}, false, ""},
			limitShape{fmt.Sprintf("self-call-inside-eexec-binary-%t", bin), eexecShape(3, "/f { f 1 } def f", bin), []string{"execstackoverflow"}, false, ""})
	}
	{
		src := "/a { currentfile eexec a 1 } def a\n"
		for i := 0; i < 260; i++ {
			sec := gen.WrapEexec(sim.ReplayTape([]uint32{7, 7, 7, 7}), nil, []byte("currentfile closefile\n"), nil, false)
			src += string(sec[len("currentfile eexec")+1:]) + "\n"
		}
		limitShapes = append(limitShapes, limitShape{"self-call-through-one-eexec-section-per-level", src, []string{"execstackoverflow"}, false, ""})
	}
	// code inside the data blocks of a CMap is code like any other
	for _, blk := range []string{"bfchar", "cidrange", "codespacerange", "notdefrange"} {
		pre := "/CIDInit /ProcSet findresource begin 12 dict begin begincmap 1 begincodespacerange <00> <ff> endcodespacerange 1 begin" + blk + " "
		if blk == "codespacerange" {
			pre = "/CIDInit /ProcSet findresource begin 12 dict begin begincmap 1 begincodespacerange "
		}
		limitShapes = append(limitShapes,
			limitShape{"spin-inside-open-" + blk + "-block", pre + "{ } loop", []string{"budget"}, false, ""},
			limitShape{"push-inside-open-" + blk + "-block", pre + "{ 1 } loop", []string{"stackoverflow"}, false, ""},
			limitShape{"ReadCMap-spin-inside-open-" + blk + "-block", pre + "{ } loop", []string{"budget"}, false, "ReadCMap"})
	}
	limitShapes = append(limitShapes,
		limitShape{"failing-begin-repeated-under-handler", "errordict /typecheck { pop } put 600 { 5 begin } repeat", []string{"", "stackoverflow"}, false, ""},
		limitShape{"failing-eexec-operand-repeated-under-handler", "errordict /typecheck { } put 600 { 5 eexec } repeat", []string{"", "stackoverflow"}, false, ""},
	)
}

var limitShapes = []limitShape{
	{"loop-push-int", "{ 1 } loop", []string{"stackoverflow"}, false, ""},
	{"loop-push-dup", "0 { dup } loop", []string{"stackoverflow"}, false, ""},
	{"loop-push-string", "{ (abc) } loop", []string{"stackoverflow"}, false, ""},
	{"loop-push-array", "{ [ 1 2 ] } loop", []string{"stackoverflow"}, false, ""},
	{"loop-push-mark", "{ mark } loop", []string{"stackoverflow"}, false, ""},
	{"loop-count", "{ count } loop", []string{"stackoverflow"}, false, ""},
	{"loop-copy", "1 2 3 { 3 copy } loop", []string{"stackoverflow"}, false, ""},
	{"loop-index", "7 { 0 index } loop", []string{"stackoverflow"}, false, ""},
	{"loop-currentdict", "{ currentdict } loop", []string{"stackoverflow"}, false, ""},
	{"loop-open-proc", "{ { } 0 pop } loop", []string{"stackoverflow"}, false, ""},
	{"repeat-push", "100000 { 1 } repeat", []string{"stackoverflow"}, false, ""},
	{"for-push", "0 1 1000000 { } for", []string{"stackoverflow"}, false, ""},
	{"forall-push", "70000 string { } forall", []string{"limitcheck", "stackoverflow"}, false, ""},
	{"forall-push-ok", "60000 string { } forall", []string{"stackoverflow"}, false, ""},
	{"toplevel-push", strings.Repeat("1 ", 3000), []string{"stackoverflow"}, false, ""},
	{"toplevel-open-brace", strings.Repeat("{ ", 3000), []string{"stackoverflow", "", "syntaxerror", "limitcheck"}, false, ""},
	{"toplevel-open-brace-push", strings.Repeat("{ 1 ", 3000), []string{"stackoverflow"}, false, ""},
	{"self-call-via-exec-name", "/f { /f load exec 1 } def f", []string{"execstackoverflow"}, false, ""},
	{"self-call-deep-then-push", "/f { f 1 } def /g { 1 f } def g", []string{"execstackoverflow"}, false, ""},
	{"three-cycle", "/a { b 1 } def /b { c 2 } def /c { a 3 } def a", []string{"execstackoverflow"}, false, ""},
	{"self-call-in-array-forall", "/f { [ 1 ] { pop f } forall 1 } def f", []string{"execstackoverflow"}, false, ""},
	{"self-call-userdict-begin", "/f { userdict begin f end } def f", []string{"dictstackoverflow", "execstackoverflow"}, false, ""},
	{"bound-self-call", "/f { f 1 } bind def f", []string{"execstackoverflow"}, false, ""},
	{"begin-loop", "{ currentdict begin } loop", []string{"dictstackoverflow"}, false, ""},
	{"begin-loop-newdict", "{ 1 dict begin } loop", []string{"dictstackoverflow"}, false, ""},
	{"begin-repeat", "1000 { userdict begin } repeat", []string{"dictstackoverflow"}, false, ""},
	{"begin-toplevel", strings.Repeat("userdict begin ", 100), []string{"dictstackoverflow"}, false, ""},
	{"begin-recursive", "/f { 1 dict begin f end } def f", []string{"dictstackoverflow", "execstackoverflow"}, false, ""},
	{"self-call-nontail", "/f { f 1 } def f", []string{"execstackoverflow"}, false, ""},
	{"self-call-tail", "/f { f } def f", []string{"execstackoverflow", "budget"}, false, ""},
	{"self-call-push-tail", "/f { 1 f } def f", []string{"execstackoverflow", "stackoverflow"}, false, ""},
	{"mutual-nontail", "/a { b pop } def /b { a 1 } def a", []string{"execstackoverflow"}, false, ""},
	{"mutual-tail", "/a { b } def /b { a } def a", []string{"execstackoverflow", "budget"}, false, ""},
	{"exec-chain", "{ dup exec 1 } dup exec", []string{"execstackoverflow"}, false, ""},
	{"exec-chain-tail", "{ dup exec } dup exec", []string{"execstackoverflow", "budget"}, false, ""},
	{"proc-in-itself", "/p 1 array def p 0 p cvx put /q p cvx def q", []string{"execstackoverflow", "stackoverflow", "budget", ""}, false, ""},
	{"array-in-itself-forall", "/a 1 array def a 0 a put a { } forall a 0 get 0 get 0 get pop", []string{""}, false, ""},
	{"nested-loops", "{ { { 1 } loop } loop } loop", []string{"stackoverflow"}, false, ""},
	{"nested-if", "/f { true { f 1 } if } def f", []string{"execstackoverflow"}, false, ""},
	{"nested-ifelse", "/f { false { } { f 1 } ifelse } def f", []string{"execstackoverflow"}, false, ""},
	{"nested-for", "/f { 0 1 0 { pop f 1 } for } def f", []string{"execstackoverflow"}, false, ""},
	{"nested-repeat", "/f { 1 { f 1 } repeat } def f", []string{"execstackoverflow"}, false, ""},
	{"nested-forall", "/f { [ 0 ] { pop f 1 } forall } def f", []string{"execstackoverflow"}, false, ""},
	{"handler-fails", "errordict /undefined { nosuchname2 } put nosuchname1", []string{"undefined"}, false, ""},
	{"handler-recurses", "errordict /undefined { nosuchname } put nosuchname", []string{"undefined"}, false, ""},
	{"handler-typecheck-loop", "errordict /typecheck { 1 (a) add } put 1 (a) add", []string{"typecheck"}, false, ""},
	{"handler-pushes", "errordict /undefined { 1 } put { nosuchname } loop", []string{""}, false, ""},
	{"handler-calls-proc", "/f { nosuchname 1 } def errordict /undefined { f } put f", []string{"undefined", "execstackoverflow"}, false, ""},
	{"handler-swallows-in-loop", "errordict /undefined { } put { nosuchname 1 } loop", []string{""}, false, ""},
	{"handler-stackoverflow", "errordict /stackoverflow { 1 } put { 1 } loop", []string{"stackoverflow"}, false, ""},
	{"handler-dictstackoverflow", "errordict /dictstackoverflow { userdict begin } put { userdict begin } loop", []string{"dictstackoverflow"}, false, ""},
	{"handler-execstackoverflow", "errordict /execstackoverflow { f } put /f { f 1 } def f", []string{"execstackoverflow"}, false, ""},
	{"array-huge", "9223372036854775807 array", []string{"limitcheck"}, false, ""},
	{"array-2^40", "1099511627776 array", []string{"limitcheck"}, false, ""},
	{"array-2^31", "2147483648 array", []string{"limitcheck"}, false, ""},
	{"string-huge", "9223372036854775807 string", []string{"limitcheck"}, false, ""},
	{"string-2^40", "1099511627776 string", []string{"limitcheck"}, false, ""},
	{"string-2^31", "2147483647 string", []string{"limitcheck"}, false, ""},
	{"dict-huge", "9223372036854775807 dict", []string{"limitcheck"}, false, ""},
	{"dict-2^40", "1099511627776 dict", []string{"limitcheck"}, false, ""},
	{"dict-2^31", "2147483647 dict", []string{"limitcheck"}, false, ""},
	{"array-loop-2^31", "{ 2147483647 array } loop", []string{"limitcheck"}, false, ""},
	{"matrix-loop", "{ matrix } loop", []string{"stackoverflow"}, false, ""},
	{"dict-put-growth", "/d 1 dict def [ /a /b /c /d /e /f /g /h ] { d exch 1 put } forall 0 1 100000 { pop d /k 1 put } for d length", []string{""}, true, ""},
	{"string-loop-64k", "{ 65535 string } loop", []string{"stackoverflow", "limitcheck", "VMerror"}, true, ""},
	{"array-loop-64k", "{ 60000 array } loop", []string{"stackoverflow", "limitcheck", "VMerror"}, true, ""},
	{"loop-push-bound-body", "{ 1 } bind loop", []string{"stackoverflow"}, false, ""},
	{"for-push-bound-body", "0 1 1000000 { dup } bind for", []string{"stackoverflow"}, false, ""},
	{"repeat-push-bound-body", "1000000 { 1 } bind repeat", []string{"stackoverflow"}, false, ""},
	{"forall-push-bound-body", "60000 string { dup } bind forall", []string{"stackoverflow"}, false, ""},
	{"loop-count-bound-body", "{ count } bind loop", []string{"stackoverflow"}, false, ""},
	{"handler-typecheck-pushing-loop", "errordict /typecheck { { 1 } loop } put 1 begin", []string{"stackoverflow"}, false, ""},
	{"handler-undefined-pushing-loop", "errordict /undefined { { 1 } loop } put nosuchname", []string{"stackoverflow", "undefined"}, false, ""},
	{"handler-stackunderflow-pushing-loop", "errordict /stackunderflow { { mark } loop } put pop", []string{"stackoverflow"}, false, ""},
	{"handler-rangecheck-pushing-for", "errordict /rangecheck { 0 1 1000000 { } for } put -1 array", []string{"stackoverflow"}, false, ""},
	{"handler-begin-loop", "errordict /typecheck { { currentdict begin } loop } put 1 begin", []string{"dictstackoverflow"}, false, ""},
	{"handler-recursion", "/f { f 1 } def errordict /typecheck { f } put 1 begin", []string{"execstackoverflow"}, false, ""},
	{"loop-push-above-open-bracket", "[ { 0 } loop", []string{"stackoverflow"}, false, ""},
	{"loop-push-above-mark", "mark { 1 } loop", []string{"stackoverflow"}, false, ""},
	{"loop-push-above-dict-mark", "<< { /a 1 } loop", []string{"stackoverflow"}, false, ""},
	{"for-push-above-open-bracket", "[ 0 1 1000000 { } for", []string{"stackoverflow"}, false, ""},
	{"recursion-push-above-mark", "mark /f { 1 f } def f", []string{"stackoverflow", "execstackoverflow"}, false, ""},
	{"array-real-size", "1e5 array", []string{"typecheck", "limitcheck", "rangecheck"}, false, ""},
	{"string-real-size", "70000.0 string", []string{"typecheck", "limitcheck", "rangecheck"}, false, ""},
	{"dict-real-size", "65536 1.0 add dict", []string{"typecheck", "limitcheck", "rangecheck"}, false, ""},
	{"array-huge-real-size", "4e18 array", []string{"typecheck", "limitcheck", "rangecheck"}, false, ""},
	{"string-real-size-in-loop", "{ 1e6 string } loop", []string{"typecheck", "limitcheck", "rangecheck"}, false, ""},
	{"type1.Read-runaway-loop", "%!\n{ } loop", []string{"budget"}, false, "type1.Read"},
	{"type1.Read-runaway-recursion", "%!\n/f { f 1 } def f", []string{"execstackoverflow"}, false, "type1.Read"},
	{"type1.Read-runaway-push", "%!\n{ 1 } loop", []string{"stackoverflow"}, false, "type1.Read"},
	{"ReadCMap-runaway-loop", "{ 1 pop } loop", []string{"budget"}, false, "ReadCMap"},
	{"ReadCMap-runaway-begin", "{ currentdict begin } loop", []string{"dictstackoverflow"}, false, "ReadCMap"},
	{"eexec-nested", "currentfile eexec 00000000", []string{"", "ioerror", "syntaxerror", "undefined", "invalidaccess", "typecheck", "stackunderflow", "rangecheck", "stackoverflow", "other"}, false, ""},
}

func errName(err error) string {
	if err == nil {
		return ""
	}
	if err == postscript.ErrExecutionLimitExceeded {
		return "budget"
	}
	s := err.Error()
	if i := strings.Index(s, ":"); i > 0 {
		w := s[:i]
		if !strings.ContainsAny(w, " \t") {
			return w
		}
	}
	return "other"
}

const (
	capStack     = 70000 // generous: the property names no number, only "cut off instead of growing without bound"
	capDictStack = 1000
)

// C11 builds the check for property C11.
func C11() *sim.Check {
	sweep := &sim.Batch{Name: "sweep", Quick: 6000, Thorough: 600000}
	sweep.Run = func(c *sim.RunCtx) *sim.Outcome {
		t := c.T
		o := c11Opts(t)
		var p *gen.PSProg
		if o.Files && t.Bool(1, 3) {
			p = gen.GenPSWithEexec(t, o)
			c.St.Inc("programs_with_eexec")
		} else {
			p = gen.GenPS(t, o)
		}
		c.St.Inc("programs")
		well := !p.HasFiles && !p.HasStop
		nontrivial := p.HasLoop && p.HasProcCall
		if nontrivial {
			c.St.Inc("programs_nontrivial")
		}
		out := sweepProgram(c, p.Src, well, p.Gaps, nontrivial)
		c.St.Sample(map[string]any{"program": printable(p.Src), "tokens": p.NTokens})
		return out
	}

	// hand-written programs around the error-dispatch path, swept like the others
	fixed := []string{
		"1 2 add { 1 pop } exec",
		"errordict /interrupt {} put { 1 pop } loop 7 8 9",
		"errordict /interrupt { 1 } put 0 1 50 { pop } for 7 8 9",
		"errordict /interrupt { stop } put { 1 pop } loop 1 2 3",
		"errordict /typecheck { pop pop 0 } put 1 (a) add 2 (b) add 3 add",
		"/f { 1 1 add pop } def 10 { f } repeat { f } exec [ 1 2 3 ] { pop f } forall",
		"{ { { 1 pop } exec } exec } exec 5",
		"0 1 5 { 0 1 5 { add } for } for",
		"errordict /undefined { pop } put a b c 1 2 3",
		"currentfile eexec ",
		"0 1 20 { pop } bind for 5 { 1 } bind repeat pop pop pop pop pop [ 1 2 3 ] { pop } bind forall { exit } bind loop 7",
		"0 1 9 { dup } bind for count { pop } bind repeat (abc) { pop } bind forall",
		"errordict /typecheck { pop pop 1 1 add } put 1 (a) add 2 (b) add { 1 (c) add pop } bind exec",
		// names bound to executable names (obtainable only by taking a token out
		// of a procedure body): chains and a cycle
		"/a 7 def /b { a } 0 get def /c { b } 0 get def c c add b",
		"/x { x } 0 get def 1 2 add x 3",
		"/p { 1 } def /q { p } 0 get def /r { q } 0 get def 3 { r pop } repeat r",
	}
	fixedB := &sim.Batch{Name: "dispatch", Quick: len(fixed), Thorough: len(fixed), Enumerated: true}
	fixedB.Run = func(c *sim.RunCtx) *sim.Outcome {
		src := []byte(fixed[c.Index])
		var gaps []int
		for i, b := range src {
			if b == ' ' {
				gaps = append(gaps, i)
			}
		}
		well := !strings.Contains(fixed[c.Index], "stop") && !strings.Contains(fixed[c.Index], "currentfile")
		return sweepProgram(c, src, well, gaps, true)
	}

	limits := &sim.Batch{Name: "limits", Quick: len(limitShapes) * 2, Thorough: len(limitShapes) * 2, Enumerated: true,
		Isolated: true, PerProc: 1, Workers: 4, ChildTimeout: 25e9, TimeoutIsViolation: true}
	limits.Run = func(c *sim.RunCtx) *sim.Outcome {
		sh := limitShapes[c.Index/2]
		if sh.heavy && c.Tier != "thorough" {
			return nil
		}
		// shapes whose growth must be cut off by a PostScript error run without
		// any budget: they have to stop by themselves (a child process that dies
		// from Go stack exhaustion or runs into the wall-clock limit is the
		// violation).  Shapes that may legitimately spin without growing (tail
		// calls) get a safety budget.
		budget := 0
		for _, w := range sh.want {
			if w == "budget" {
				budget = 400000
			}
		}
		sch := gen.RefSchedule()
		if c.Index%2 == 1 {
			sch = sim.Schedule{Mode: sim.ChunkFixed, K: 7}
		}
		in := newInterp(budget)
		var ex *psExec
		switch sh.surf {
		case "type1.Read":
			r := sim.NewSimReader([]byte(sh.src), sch, sim.Fault{}, nil)
			_, err := type1.Read(r.Reader())
			ex = &psExec{In: in, Err: err}
		case "ReadCMap":
			r := sim.NewSimReader([]byte(sh.src), sch, sim.Fault{}, nil)
			_, err := postscript.ReadCMap(r.Reader())
			ex = &psExec{In: in, Err: err}
		default:
			ex = runPS(in, []byte(sh.src), sch, nil, sim.Fault{}, nil)
		}
		c.St.Inc("limit_shapes_run")
		c.St.Case(uint64(c.Index) | 2<<40)
		c.St.Sample(map[string]any{"limit_shape": sh.name, "program": printable([]byte(sh.src)), "ended_with": dump.Err(ex.Err), "ops": in.NumOps, "stack": len(in.Stack), "dictstack": len(in.DictStack)})
		got := errName(ex.Err)
		ok := false
		for _, w := range sh.want {
			if w == got {
				ok = true
			}
		}
		human := map[string]any{"shape": sh.name, "program": printable([]byte(sh.src)), "error": dump.Err(ex.Err), "NumOps": in.NumOps,
			"len(Stack)": len(in.Stack), "len(DictStack)": len(in.DictStack), "acceptable": sh.want}
		if len(in.Stack) > capStack || len(in.DictStack) > capDictStack {
			return &sim.Outcome{Class: "unbounded-growth", Key: "limits:" + sh.name, Detail: fmt.Sprintf("shape %s: operand stack %d / dictionary stack %d entries when the run ended (%s)", sh.name, len(in.Stack), len(in.DictStack), dump.Err(ex.Err)), Human: human}
		}
		if !ok {
			return &sim.Outcome{Class: "limit-not-enforced", Key: "limits:" + sh.name, Detail: fmt.Sprintf("shape %s ended with %q (%s), acceptable: %q", sh.name, got, dump.Err(ex.Err), sh.want), Human: human}
		}
		return nil
	}
	// a shape whose growth is not cut off must not take the machine down: the
	// child caps its own address space, so runaway allocation ends as a Go
	// "out of memory" abort (classified below) instead of swapping the host
	limits.ChildInit = func() {
		lim := syscall.Rlimit{Cur: 6 << 30, Max: 6 << 30}
		syscall.Setrlimit(syscall.RLIMIT_AS, &lim)
	}
	limits.ClassifyAbort = func(exit int, stderr string) *sim.Outcome {
		if strings.Contains(stderr, "stack exceeds") || strings.Contains(stderr, "out of memory") || strings.Contains(stderr, "cannot allocate") {
			return &sim.Outcome{Class: "process-abort", Key: "limits:process-abort", Detail: "the process was killed by Go stack exhaustion / out of memory: growth was not cut off", Human: map[string]any{"stderr": stderr[:min(len(stderr), 3000)]}}
		}
		return nil
	}

	// generated recursion shapes: a procedure that re-enters itself through
	// every call mechanism x every way of handing the callee over x bind or not,
	// always NON-tail (something remains to be done after the inner call), so
	// the nesting grows with every level and must be cut off by a PostScript
	// error.  Run without any budget: a dead or hanging child is the violation.
	mechs := []string{
		"%s",                                     // plain name inside the body
		"%s exec",                                // exec
		"true %s if",                             // if
		"false { } %s ifelse",                    // ifelse
		"1 %s repeat",                            // repeat
		"0 1 0 %s for",                           // for (pushes the control variable)
		"[ 0 ] %s forall",                        // forall (pushes the element)
		"{ %s exec exit } loop",                  // loop left by exit after the inner call
		"errordict /undefined %s put nosuchname", // through an error handler
	}
	forms := []string{"{ a }", "{ a } 0 get", "/a load", "{ { a } exec }", "{ a } bind"}
	nRec := len(mechs) * len(forms) * 2 * 2
	recur := &sim.Batch{Name: "recursion-shapes", Quick: nRec, Thorough: nRec, Enumerated: true,
		Isolated: true, PerProc: 1, Workers: 6, ChildTimeout: 25e9, TimeoutIsViolation: true}
	recur.ChildInit = func() {
		lim := syscall.Rlimit{Cur: 6 << 30, Max: 6 << 30}
		syscall.Setrlimit(syscall.RLIMIT_AS, &lim)
	}
	recur.Run = func(c *sim.RunCtx) *sim.Outcome {
		i := c.Index
		mech := mechs[i%len(mechs)]
		i /= len(mechs)
		form := forms[i%len(forms)]
		i /= len(forms)
		bind := i%2 == 1
		i /= 2
		after := []string{"1", "1 pop"}[i%2]
		callee := form
		if mech == "%s" {
			callee = "a" // the plain-name mechanism has no operand form
		}
		body := fmt.Sprintf(mech, callee) + " " + after
		src := "/a { " + body + " } "
		if bind {
			src += "bind "
		}
		src += "def a"
		in := newInterp(0)
		ex := runPS(in, []byte(src), gen.RefSchedule(), nil, sim.Fault{}, nil)
		c.St.Inc("recursion_shapes_run")
		c.St.Case(uint64(c.Index) | 4<<40)
		human := map[string]any{"program": src, "error": dump.Err(ex.Err), "NumOps": in.NumOps, "len(Stack)": len(in.Stack), "len(DictStack)": len(in.DictStack)}
		if len(in.Stack) > capStack || len(in.DictStack) > capDictStack {
			return &sim.Outcome{Class: "unbounded-growth", Key: "recursion:" + src, Detail: fmt.Sprintf("`%s`: operand stack %d / dictionary stack %d entries when the run ended", src, len(in.Stack), len(in.DictStack)), Human: human}
		}
		if ex.Err == nil || ex.Err == postscript.ErrExecutionLimitExceeded {
			return &sim.Outcome{Class: "limit-not-enforced", Key: "recursion:" + src, Detail: fmt.Sprintf("non-tail self-recursion `%s` ended with %s instead of a PostScript error", src, dump.Err(ex.Err)), Human: human}
		}
		return nil
	}
	recur.ClassifyAbort = func(exit int, stderr string) *sim.Outcome {
		if strings.Contains(stderr, "stack exceeds") || strings.Contains(stderr, "out of memory") || strings.Contains(stderr, "cannot allocate") {
			return &sim.Outcome{Class: "process-abort", Key: "recursion:process-abort", Detail: "the process was killed by Go stack exhaustion / out of memory: execution nesting was not cut off", Human: map[string]any{"stderr": stderr[:min(len(stderr), 3000)]}}
		}
		return nil
	}

	// start check: every two-byte prefix (and the 0/1-byte inputs), three deliveries
	start := &sim.Batch{Name: "startcheck", Quick: (65536 + 257) * 3 * 3, Thorough: (65536 + 257) * 3 * 3, Enumerated: true}
	start.Run = func(c *sim.RunCtx) *sim.Outcome {
		v := (c.Index / 3) % (65536 + 257)
		mode := c.Index % 3
		cont := c.Index / (3 * (65536 + 257)) // what follows the two bytes
		var src []byte
		switch {
		case v < 65536:
			src = []byte{byte(v >> 8), byte(v)}
		case v == 65536:
			src = nil
		default:
			src = []byte{byte(v - 65537)}
		}
		// continuation 0: a newline and a program; 1: a genuine header follows the
		// two bytes (" \n%!..." must still be rejected); 2: "!" follows (so that
		// x% + ! looks like a header one byte late)
		src = append(src, []string{"\n1 2 add\n", "%!\n1 2 add\n", "!\n1 2 add\n"}[cont]...)
		if v >= 65536 && cont == 0 {
			src = src[:len(src)-len("\n1 2 add\n")] // the bare 0- and 1-byte inputs
		}
		sch := sim.Schedule{Mode: sim.ChunkAll}
		switch mode {
		case 1:
			sch = sim.Schedule{Mode: sim.ChunkFixed, K: 1}
		case 2:
			sch = sim.Schedule{Mode: sim.ChunkAll, EOFWithData: true}
		}
		in := postscript.NewInterpreter()
		in.CheckStart = true
		ex := runPS(in, src, sch, nil, sim.Fault{}, nil)
		c.St.Inc("startcheck_cases")
		c.St.Case(uint64(c.Index) | 3<<40)
		isPS := len(src) >= 2 && src[0] == '%' && src[1] == '!'
		human := map[string]any{"input": printable(src), "schedule": sch.String(), "error": dump.Err(ex.Err), "NumOps": in.NumOps, "stack": len(in.Stack)}
		if !isPS {
			if ex.Err != postscript.ErrNoPostScript || in.NumOps != 0 || len(in.Stack) != 0 {
				return &sim.Outcome{Class: "startcheck-accepts", Key: fmt.Sprintf("startcheck:%x", src[:min(2, len(src))]),
					Detail: fmt.Sprintf("input %q does not start with %%! but the call returned %s with NumOps=%d and %d stack entries", src[:min(2, len(src))], dump.Err(ex.Err), in.NumOps, len(in.Stack)), Human: human}
			}
			return nil
		}
		wantTop := "i3"
		if ex.Err != nil || len(in.Stack) != 1 || dump.Object(in.Stack[0]) != wantTop {
			return &sim.Outcome{Class: "startcheck-rejects", Key: "startcheck:rejects-ps", Detail: fmt.Sprintf("input starting with %%! was not executed normally: %s", dump.Err(ex.Err)), Human: human}
		}
		// once passed, the check is not repeated on later calls
		ex2 := runPS(in, []byte("4 5 add"), sch, nil, sim.Fault{}, nil)
		if ex2.Err != nil || len(in.Stack) != 2 {
			return &sim.Outcome{Class: "startcheck-repeated", Key: "startcheck:repeated", Detail: fmt.Sprintf("second call on the same interpreter (no %%! header) failed: %s", dump.Err(ex2.Err)), Human: human}
		}
		return nil
	}

	// start check under a history: first call fails the check / a read fault
	// arrives inside the two-byte peek
	startH := &sim.Batch{Name: "startcheck-history", Quick: 20000, Thorough: 1000000}
	startH.Run = func(c *sim.RunCtx) (out *sim.Outcome) {
		t := c.T
		defer func() {
			if p := recover(); p != nil {
				c.St.Inc("skipped_panicking_programs(C01)")
				out = nil
			}
		}()
		p := gen.GenPS(t, gen.PSOpts{MaxTokens: 20, DSC: true, PlainLex: true})
		var src []byte
		hasHeader := t.Bool(2, 3)
		if hasHeader {
			src = append([]byte("%!\n"), p.Src...)
			if t.Bool(1, 2) {
				src = append([]byte("%!PS-Adobe-3.0\n"), p.Src...)
			}
		} else {
			src = p.Src
		}
		isPS := len(src) >= 2 && src[0] == '%' && src[1] == '!'
		sch := gen.GenSchedule(t, len(src), false)
		var cuts []int
		if len(p.Gaps) > 0 && t.Bool(1, 2) {
			off := len(src) - len(p.Src)
			cuts = []int{off + sim.Pick(t, p.Gaps)}
		}
		fault := sim.Fault{}
		if t.Bool(1, 3) {
			fault = sim.Fault{Kind: []sim.FaultKind{sim.FaultTransient, sim.FaultPersistent}[t.Choose(2)], At: t.Choose(3)}
		}
		in := newInterp(20000)
		in.CheckStart = true
		ex := runPS(in, src, sch, cuts, fault, t)
		c.St.Inc("startcheck_history_runs")
		human := map[string]any{"input": printable(src), "schedule": sch.String(), "call_cuts": cuts, "fault": fmt.Sprintf("%v@%d", fault.Kind, fault.At), "error": dump.Err(ex.Err)}
		delivered := false
		for _, r := range ex.Readers {
			delivered = delivered || r.Delivered
		}
		if fault.Kind != sim.FaultNone && fault.At < 2 && delivered {
			c.St.Inc("probe_fault_inside_start_peek")
			if ex.Err == nil || ex.Err == postscript.ErrNoPostScript && isPS {
				return &sim.Outcome{Class: "startcheck-fault", Key: "startcheck:fault", Detail: fmt.Sprintf("read fault inside the two-byte start peek was reported as %s", dump.Err(ex.Err)), Human: human}
			}
			return nil
		}
		if delivered {
			return nil // a fault elsewhere: C13's business
		}
		if !isPS {
			if ex.Err != postscript.ErrNoPostScript || in.NumOps != 0 || len(in.Stack) != 0 {
				return &sim.Outcome{Class: "startcheck-accepts", Key: "startcheck:history-accepts", Detail: fmt.Sprintf("program without %%! header: %s, NumOps=%d", dump.Err(ex.Err), in.NumOps), Human: human}
			}
			return nil
		}
		// reference: same program without the check
		ref := newInterp(20000)
		rx := runPS(ref, src, gen.RefSchedule(), nil, sim.Fault{}, nil)
		dmp := dump.Interp
		if rx.Err != nil {
			dmp = dump.InterpNoDSC // comments of a failing call are dropped, so they depend on the call split
		}
		if dump.Err(rx.Err) != dump.Err(ex.Err) || dmp(ref) != dmp(in) {
			return &sim.Outcome{Class: "startcheck-changes-result", Key: "startcheck:changes-result",
				Detail: "a program with a %! header gives a different result with the start check enabled: " + firstDiff(dump.Err(ex.Err)+dump.Interp(in), dump.Err(rx.Err)+dump.Interp(ref)), Human: human}
		}
		c.St.Case(sim.Mix(sim.HashBytes(src), "startH", ex.Print))
		return nil
	}

	return &sim.Check{
		Prop: "C11", Harness: "h_budget", Level: "fault_enumeration",
		Rule:        "sweep/dispatch: for a generated (or hand-written) program P with T=ops(P), the budget is set to every N in 1..T+2 (an injected interruption at logical tick N+1; sampled at 340 points when T>1500), each under one of three drawn delivery schedules and, for programs without stop/currentfile operators, cut into 1-4 Execute calls on one instance; N>=T must reproduce the unbudgeted state exactly, N<T must return ErrExecutionLimitExceeded with NumOps==N+1. distinct_nontrivial counts distinct (program hash, N) with N<T for programs containing a loop and a procedure call, plus one per enumerated limit shape and start-check case. limits: ~75 growth shapes (incl. runaway programs handed to type1.Read / ReadCMap, which set their own budgets) x 2 deliveries in child processes (a Go stack overflow kills only the child). recursion-shapes: 9 call mechanisms x 5 operand forms x bind x 2 continuations of non-tail self-recursion, no budget, one child process each. startcheck: all 65536 two-byte prefixes and the 0/1-byte inputs x 3 continuations (program / a genuine %! header one or two bytes late / '!') x 3 deliveries (exhaustive), plus random programs with/without header x delivery x call split x faults inside the peek.",
		Assume:      []string{"sub-clause 'limits' has no schedule in it: it is asserted on a fixed catalogue of growth shapes and reported separately (limit_shapes_run)", "stack caps used as oracle are deliberately generous (70000 / 1000) because the property names no number"},
		RealStub:    map[string]any{"real": []string{"postscript.Interpreter and everything below it (unmodified /repo code)"}, "stub": []string{"program source (SimReader with drawn chunking)", "the caller (budget values, Execute call splits)"}},
		Batches:     []*sim.Batch{fixedB, start, limits, recur, sweep, startH},
		SimTimeUnit: "interpreter operations (ticks of the logical clock NumOps) executed in budgeted runs", SimTimeCounters: []string{"sim_ticks"},
		Probes: []string{"probe_budget_spans_execute_calls", "probe_fault_inside_start_peek", "programs_with_eexec", "runaway_programs", "programs_nontrivial"},
	}
}
