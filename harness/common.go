package harness

import (
	"errors"
	"fmt"
	"sort"

	"seehuhn.de/go/postscript"

	"verif/sim"
)

// psExec runs a program on a fresh interpreter: delivered by a SimReader under
// sch, optionally cut into consecutive Execute calls at cuts (byte offsets),
// with operation budget maxOps (0 = none).  A call that returns an error ends
// the history.
type psExec struct {
	In      *postscript.Interpreter
	Err     error
	Calls   int
	Reads   int
	Multi   bool // some call saw more than one non-empty Read
	NoProg  bool
	Print   uint64
	Readers []*sim.SimReader
	// Trail lists every call's error (histories that go on after a PostScript
	// error, see runPSHistory).
	Trail string
}

func runPS(in *postscript.Interpreter, src []byte, sch sim.Schedule, cuts []int, fault sim.Fault, tape *sim.Tape) *psExec {
	return runPSHistory(in, src, sch, cuts, fault, tape, false)
}

// runPSHistory is runPS with the option to go on with the next Execute call
// after a call that failed with a PostScript error (the interpreter instance
// stays usable).  The budget error and ErrNoPostScript always end the history.
func runPSHistory(in *postscript.Interpreter, src []byte, sch sim.Schedule, cuts []int, fault sim.Fault, tape *sim.Tape, goOn bool) *psExec {
	res := &psExec{In: in, Print: 14695981039346656037}
	pieces := splitAt(src, cuts)
	off := 0
	for _, piece := range pieces {
		f := sim.Fault{}
		if fault.Kind != sim.FaultNone {
			// the fault offset is relative to the whole program
			if fault.At >= off && fault.At <= off+len(piece) {
				f = sim.Fault{Kind: fault.Kind, At: fault.At - off}
			}
		}
		s2 := sch
		if sch.Mode == sim.ChunkSplit || sch.Mode == sim.ChunkList {
			s2.K = sch.K - off
			s2.Cuts = nil
			for _, c := range sch.Cuts {
				s2.Cuts = append(s2.Cuts, c-off)
			}
		}
		var err error
		res.Calls++
		if sch.Mode == sim.ChunkAll && !sch.EOFWithData && !sch.Seekable && f.Kind == sim.FaultNone && (len(piece)+res.Calls)%3 == 0 {
			// the other public entry point: the whole piece as a string is the
			// same delivery as all-at-once followed by a separate EOF (no draw
			// from the tape: which pieces go this way depends on their length)
			err = in.ExecuteString(string(piece))
			res.Reads++
			res.Print = (res.Print ^ uint64(len(piece))) * 1099511628211
		} else {
			r := sim.NewSimReader(piece, s2, f, tape)
			res.Readers = append(res.Readers, r)
			err = in.Execute(r.Reader())
			res.Reads += r.Reads
			res.Multi = res.Multi || r.MultiChunk
			res.NoProg = res.NoProg || r.NoProgress
			res.Print = (res.Print ^ r.Fingerprint()) * 1099511628211
		}
		if err != nil {
			res.Err = err
			res.Trail += fmt.Sprintf("[call %d: %s]", res.Calls, err.Error())
			if !goOn || err == postscript.ErrExecutionLimitExceeded || err == postscript.ErrNoPostScript || errors.Is(err, sim.ErrInjected) {
				break
			}
		}
		off += len(piece)
	}
	return res
}

func splitAt(src []byte, cuts []int) [][]byte {
	if len(cuts) == 0 {
		return [][]byte{src}
	}
	c := append([]int{}, cuts...)
	sort.Ints(c)
	var out [][]byte
	prev := 0
	for _, x := range c {
		if x <= prev || x >= len(src) {
			continue
		}
		out = append(out, src[prev:x])
		prev = x
	}
	out = append(out, src[prev:])
	return out
}

func printable(b []byte) string {
	if len(b) > 4000 {
		return fmt.Sprintf("%q...(%d bytes)", b[:4000], len(b))
	}
	return fmt.Sprintf("%q", b)
}

func firstDiff(a, b string) string {
	n := len(a)
	if len(b) < n {
		n = len(b)
	}
	i := 0
	for i < n && a[i] == b[i] {
		i++
	}
	lo := i - 60
	if lo < 0 {
		lo = 0
	}
	ha, hb := i+100, i+100
	if ha > len(a) {
		ha = len(a)
	}
	if hb > len(b) {
		hb = len(b)
	}
	return fmt.Sprintf("first difference at byte %d: %q  vs  %q", i, a[lo:ha], b[lo:hb])
}
