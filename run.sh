#!/bin/bash
# run.sh <property> <quick|thorough>        run the check of one property
# run.sh <property> replay <file>           re-execute a recorded violation
# run.sh setup                              pre-compile everything (offline)
# run.sh selftest-determinism | selftest-sensitivity [ids...] | selftest-replay
#
# Exit codes: 0 property held on everything explored; 1 VIOLATION printed;
# 2 infrastructure trouble (build failure, instrumenter refusal, watchdog,
# blind reach probe, non-reproducible replay).
set -u
export GOFLAGS=-mod=mod GOPROXY=off GOSUMDB=off GOTOOLCHAIN=local
export VERIF_DIR="${VERIF_DIR:-$(cd "$(dirname "$0")" && pwd)}"
export VERIF_REPO="${VERIF_REPO:-/repo}"
cd "$VERIF_DIR" || exit 2

# scratch directory: $VERIF_SCRATCH, else /var/tmp, else the system's temporary
# directory (nothing in it outlives the command)
SCR=$(mktemp -d "${VERIF_SCRATCH:-/var/tmp}/verif-XXXXXX" 2>/dev/null) || SCR=$(mktemp -d "${TMPDIR:-/tmp}/verif-XXXXXX") || exit 2
cleanup() { rm -rf "$SCR"; }
trap cleanup EXIT
trap 'cleanup; exit 2' INT TERM

# The harness module replaces seehuhn.de/go/postscript by $VERIF_REPO (default
# /repo): a private modfile is written so that /verif/go.mod stays untouched.
plain_modfile() {
	sed -e "s#=> /repo\$#=> $VERIF_REPO#" -e "s#=> ./simrt\$#=> $VERIF_DIR/simrt#" go.mod >"$SCR/plain.mod"
	cp go.sum "$SCR/plain.sum"
}

build_plain() {
	plain_modfile
	if ! go build -modfile="$SCR/plain.mod" -o "$SCR/vh" ./cmd/vh 2>"$SCR/build.log"; then
		cat "$SCR/build.log" >&2
		echo "build of the harness against $VERIF_REPO failed" >&2
		exit 2
	fi
}

# Instrumented copy of the current working tree (map-order, clock, yield and
# lock seams) for C17 / C18.
build_inst() { # $1 = extra go build flags (e.g. -race)
	mkdir -p "$SCR/repo"
	rsync -a --exclude .git --exclude examples "$VERIF_REPO"/ "$SCR/repo"/ || exit 2
	plain_modfile
	if ! go build -modfile="$SCR/plain.mod" -o "$SCR/instrument" ./tools/instrument 2>"$SCR/build.log"; then
		cat "$SCR/build.log" >&2
		exit 2
	fi
	if ! "$SCR/instrument" -dir "$SCR/repo" -simrt "$VERIF_DIR/simrt" -sites "$SCR/sites.json" >"$SCR/instrument.log" 2>&1; then
		cat "$SCR/instrument.log" >&2
		echo "instrumenter refused" >&2
		exit 2
	fi
	sed -e "s#=> /repo\$#=> $SCR/repo#" -e "s#=> ./simrt\$#=> $VERIF_DIR/simrt#" go.mod >"$SCR/inst.mod"
	cp go.sum "$SCR/inst.sum"
	# shellcheck disable=SC2086
	if ! go build $1 -modfile="$SCR/inst.mod" -o "$SCR/vhinst" ./cmd/vhinst 2>"$SCR/build.log"; then
		cat "$SCR/build.log" >&2
		echo "build of the instrumented harness failed" >&2
		exit 2
	fi
	export VERIF_SITES="$SCR/sites.json"
}

# Instrumentation equivalence (thorough tier): with the simulator inactive the
# seams are no-ops, so the repository's own suite must pass on the instrumented
# copy whenever it passes on the plain tree.  A difference is infrastructure
# trouble (exit 2), never a VIOLATION.
equivalence_gate() {
	[ "$1" = "thorough" ] || return 0
	if (cd "$VERIF_REPO" && go test -vet=off -count=1 ./... >"$SCR/suite-plain.log" 2>&1); then
		if ! (cd "$SCR/repo" && go test -vet=off -count=1 ./... >"$SCR/suite-inst.log" 2>&1); then
			tail -30 "$SCR/suite-inst.log" >&2
			echo "instrumentation equivalence gate failed: the suite passes on the plain tree but not on the instrumented copy" >&2
			exit 2
		fi
		echo "instrumentation equivalence gate: repository suite passes on the instrumented copy"
	else
		echo "instrumentation equivalence gate skipped: the suite does not pass on the plain tree"
	fi
}

run_check() { # id tier...
	local id="$1"
	shift
	case "$id" in
	C11 | C12 | C13 | C14)
		build_plain
		export VERIF_BUILD="plain"
		"$SCR/vh" "$id" "$@"
		return $?
		;;
	C17)
		build_inst ""
		equivalence_gate "${1:-quick}"
		export VERIF_BUILD="seams=maporder,clock"
		export VERIF_SCRATCH_RUN="$SCR"
		"$SCR/vhinst" "$id" "$@"
		return $?
		;;
	C18)
		build_plain
		export VERIF_PLAIN_VH="$SCR/vh"
		build_inst "-race"
		equivalence_gate "${1:-quick}"
		export VERIF_BUILD="seams=maporder,clock,yield,lock;race"
		export VERIF_SCRATCH_RUN="$SCR"
		"$SCR/vhinst" "$id" "$@"
		return $?
		;;
	*)
		echo "unknown property $id" >&2
		return 2
		;;
	esac
}

case "${1:-}" in
setup)
	plain_modfile
	go build -modfile="$SCR/plain.mod" -o "$SCR/vh" ./cmd/vh || exit 2
	if [ -d tools/instrument ] && ls tools/instrument/*.go >/dev/null 2>&1; then
		build_inst "" || exit 2
		build_inst "-race" || exit 2
	fi
	echo "setup ok"
	;;
selftest-replay)
	# record-vs-replay equivalence of the simulator itself, every property
	rc=0
	build_plain
	for id in C11 C12 C13 C14; do "$SCR/vh" "$id" selftest-replay || rc=2; done
	export VERIF_PLAIN_VH="$SCR/vh" VERIF_SCRATCH_RUN="$SCR"
	build_inst ""
	"$SCR/vhinst" C17 selftest-replay || rc=2
	build_inst "-race"
	"$SCR/vhinst" C18 selftest-replay || rc=2
	exit $rc
	;;
selftest-determinism | selftest-sensitivity)
	cmd="$1"
	shift
	exec python3 "$VERIF_DIR/tools/selftest.py" "$cmd" "$@"
	;;
C*)
	run_check "$@"
	rc=$?
	# anything other than 0/1 is infrastructure trouble
	if [ $rc -ne 0 ] && [ $rc -ne 1 ]; then rc=2; fi
	exit $rc
	;;
*)
	sed -n 2,10p "$0" >&2
	exit 2
	;;
esac
