#!/usr/bin/env python3
"""merge_detection.py <snapshot verif dir>...  copies the 'detection' entries that a
`vp run` snapshot's seeded.py detect wrote into its own seeded/*/meta.json back into
/verif/seeded/*/meta.json (newest 'at' wins), and sens.json / determinism.log if present."""
import glob, json, os, shutil, sys
VERIF = os.path.dirname(os.path.dirname(os.path.abspath(__file__)))
for snap in sys.argv[1:]:
    n = 0
    for p in glob.glob(os.path.join(snap, "seeded", "C*-s*", "meta.json")):
        q = os.path.join(VERIF, "seeded", os.path.basename(os.path.dirname(p)), "meta.json")
        if not os.path.exists(q):
            continue
        a, b = json.load(open(p)), json.load(open(q))
        for tier, det in a.get("detection", {}).items():
            old = b.get("detection", {}).get(tier)
            if old is None or det.get("at", "") > old.get("at", ""):
                b.setdefault("detection", {})[tier] = det
                n += 1
                json.dump(b, open(q, "w"), indent=1)
                open(q, "a").write("\n")
    for f in ("sens.json",):
        if os.path.exists(os.path.join(snap, f)):
            shutil.copy(os.path.join(snap, f), os.path.join(VERIF, f))
            print("copied", f)
    print(snap, "merged", n, "detection entries")
