#!/usr/bin/env python3
"""Regenerates /verif/mutants/*.patch: the sensitivity catalogue.

Each mutant is a small property-breaking edit that still compiles and passes the
repository's own test suite.  The edits are applied to a scratch worktree of
/repo's HEAD (never to /repo itself) and saved as `git diff` output.  Run this
again after the library changes; `run.sh selftest-sensitivity` then applies each
patch to a fresh scratch copy and expects the property's quick check to report
a violation.
"""
import os, subprocess, sys, shutil, tempfile

REPO = os.environ.get("VERIF_REPO", "/repo")
OUT = os.path.join(os.path.dirname(os.path.dirname(os.path.abspath(__file__))), "mutants")
ENV = dict(os.environ, GOFLAGS="-mod=mod", GOPROXY="off", GOSUMDB="off", GOTOOLCHAIN="local")

# (property, name, file, old, new [, (file2, old2, new2) ...])
M = []
def mut(prop, name, *edits):
    M.append((prop, name, edits))

# ---- C11
mut("C11", "budget-off-by-one", ("interpreter.go", "intp.NumOps > intp.MaxOps", "intp.NumOps >= intp.MaxOps"))
mut("C11", "reset-count-per-execute", ("interpreter.go", "\ts := newScanner(r)\n\terr := intp.executeScanner(s)", "\ts := newScanner(r)\n\tintp.NumOps = 0\n\terr := intp.executeScanner(s)"))
mut("C11", "checkstart-first-byte-only", ("interpreter.go", 'if string(head) != "%!" {', "if len(head) == 0 || head[0] != '%' {"))
mut("C11", "no-operand-stack-check", ("interpreter.go", "\tif len(intp.Stack) > maxOperandStackDepth {\n\t\treturn intp.e(eStackoverflow, \"operand stack overflow\")\n\t}\n", ""))
mut("C11", "revert-limit-dispatch-fix", ("interpreter.go", "ok && e2 != ErrExecutionLimitExceeded {", "ok {"))
mut("C11", "revert-nesting-fix", ("interpreter.go", "\t\tif !execProc {\n\t\t\t// Executing a name can run a procedure: this is a new level of\n\t\t\t// execution nesting, which must be counted like any other.\n\t\t\tif intp.execStackDepth >= 100 {\n\t\t\t\treturn intp.e(eExecstackoverflow, \"exec stack overflow\")\n\t\t\t}\n\t\t\tintp.execStackDepth++\n\t\t\tdefer func() { intp.execStackDepth-- }()\n\t\t}\n", ""))
mut("C11", "revert-eexec-dictstack-fix", ("eexec.go", "\t\t// the section was not entered: remove systemdict again, otherwise\n\t\t// every failed attempt leaves one more entry on the dictionary stack\n\t\tintp.DictStack = intp.DictStack[:k]\n", ""))
mut("C11", "dictstack-limit-only-in-loop-free-path", ("builtin.go", "\tif len(intp.DictStack) >= maxDictStackDepth {\n\t\treturn intp.e(eDictstackoverflow, \"begin\")\n\t}\n", "\tif len(intp.DictStack) >= maxDictStackDepth && intp.execStackDepth <= 1 {\n\t\treturn intp.e(eDictstackoverflow, \"begin\")\n\t}\n"))
mut("C11", "string-limit-dropped", ("builtin.go", "\t} else if size > maxStringSize {\n", "\t} else if size > maxStringSize && size < 1<<31 {\n"))
mut("C11", "budget-skipped-in-error-handler", ("interpreter.go", "\tif intp.MaxOps > 0 && intp.NumOps > intp.MaxOps {", "\tif intp.MaxOps > 0 && intp.NumOps > intp.MaxOps && len(intp.errors) == 0 {"))

# ---- C12
mut("C12", "refill-drops-data-with-error", ("scanner.go", "\tif n > 0 {\n\t\terr = nil\n\t}\n\treturn err\n", "\treturn err\n"))
mut("C12", "peekn-stops-at-buffer-end", ("scanner.go", "func (s *scanner) PeekN(n int) []byte {\n\tfor len(s.peek) < n {\n", "func (s *scanner) PeekN(n int) []byte {\n\tfor len(s.peek) < n {\n\t\tif s.eexec == 0 && s.used > 0 && s.pos >= s.used && len(s.peek) > 0 {\n\t\t\treturn s.peek\n\t\t}\n"))
mut("C12", "execute-clears-open-procs", ("interpreter.go", "\ts := newScanner(r)\n\terr := intp.executeScanner(s)", "\ts := newScanner(r)\n\tintp.procStart = intp.procStart[:0]\n\terr := intp.executeScanner(s)"))
mut("C12", "revert-gt-fix", ("scanner.go", "\t\t\t// A lone '>' is never valid, whatever follows it (another byte, the\n\t\t\t// end of the input, or a byte that could not be read or decoded).\n\t\t\treturn nil, &postScriptError{eSyntaxerror, \"unexpected '>'\"}\n",
     "\t\t\terr := s.err\n\t\t\tif err == nil {\n\t\t\t\terr = &postScriptError{eSyntaxerror, \"unexpected '>'\"}\n\t\t\t}\n\t\t\treturn nil, err\n"))
mut("C12", "revert-second-gt-fix", ("scanner.go", "\t\t\t// A lone '>' is never valid, whatever follows it (another byte, the\n\t\t\t// end of the input, or a byte that could not be read or decoded).\n\t\t\treturn nil, &postScriptError{eSyntaxerror, \"unexpected '>'\"}\n",
     "\t\t\tif len(bb) < 2 {\n\t\t\t\treturn nil, s.err\n\t\t\t}\n\t\t\treturn nil, &postScriptError{eSyntaxerror, \"unexpected '>'\"}\n"))
mut("C12", "seekable-peek-rewinds-to-zero", ("type1/peekreader.go", "\t\t_, err = r.Seek(pos, io.SeekStart)", "\t\t_, err = r.Seek(0, io.SeekStart)"))

# ---- C13
mut("C13", "no-sticky-error", ("scanner.go", "\tif err != nil {\n\t\ts.err = err\n\t}\n\tif n > 0 {", "\tif err == io.EOF {\n\t\ts.err = err\n\t}\n\tif n > 0 {"))
mut("C13", "any-error-ends-run", ("interpreter.go", "\t\tif err == io.EOF {\n\t\t\tbreak\n\t\t} else if err != nil {\n\t\t\treturn err\n\t\t}\n\t\terr = intp.executeOne(o, false)", "\t\tif err != nil {\n\t\t\tif _, ok := err.(*postScriptError); ok {\n\t\t\t\treturn err\n\t\t\t}\n\t\t\tbreak\n\t\t}\n\t\terr = intp.executeOne(o, false)"))
mut("C13", "type1-write-drops-close-error", ("type1/write.go", "\t\terr = we.Close()\n\t\tif err != nil {\n\t\t\treturn err\n\t\t}\n\t\terr = wh.Close()\n\t\tif err != nil {\n\t\t\treturn err\n\t\t}\n", "\t\twe.Close()\n\t\terr = wh.Close()\n\t\tif err != nil {\n\t\t\treturn err\n\t\t}\n"))
mut("C13", "type1-pfb-header-error-dropped", ("type1/write.go", "\t\t_, err = w.Write([]byte{128, 2, byte(n), byte(n >> 8), byte(n >> 16), byte(n >> 24)})\n\t\tif err != nil {\n\t\t\treturn err\n\t\t}\n", "\t\tw.Write([]byte{128, 2, byte(n), byte(n >> 8), byte(n >> 16), byte(n >> 24)})\n"))
mut("C13", "hexwriter-flush-error-dropped", ("type1/hex.go", "\t\t\tif err = w.flush(); err != nil {\n\t\t\t\treturn n, err\n\t\t\t}\n", "\t\t\tw.flush()\n"))
mut("C13", "afm-write-kern-error-dropped", ("afm/write.go", "\t\t\tif err := write(\"KPX %s %s %d\", k.Left, k.Right, k.Adjust); err != nil {\n\t\t\t\treturn err\n\t\t\t}\n", "\t\t\twrite(\"KPX %s %s %d\", k.Left, k.Right, k.Adjust)\n"))
mut("C13", "afm-read-ignores-scanner-err", ("afm/read.go", "\tif err := scanner.Err(); err != nil {\n\t\treturn nil, err\n\t}\n", ""))
mut("C13", "cmap-registered-at-begincmap", ("cmap.go", "\t\tintp.cmapMappings = &CMapInfo{}\n\t\treturn nil\n", "\t\tintp.cmapMappings = &CMapInfo{}\n\t\tif d := intp.DictStack[len(intp.DictStack)-1]; len(intp.DictStack) > 2 {\n\t\t\td[\"CodeMap\"] = intp.cmapMappings\n\t\t\tintp.CMapDirectory[\"(current)\"] = d\n\t\t}\n\t\treturn nil\n"),
    ("cmap.go", "\t\tdict[\"CodeMap\"] = intp.cmapMappings\n\t\tintp.cmapMappings = nil\n", "\t\tdict[\"CodeMap\"] = intp.cmapMappings\n\t\tdelete(intp.CMapDirectory, \"(current)\")\n\t\tintp.cmapMappings = nil\n"))
mut("C13", "pfb-binary-error-swallowed-when-data", ("pfb/reader.go", "\t\t\tif err == io.EOF {\n\t\t\t\t// the segment is shorter than its declared length\n\t\t\t\terr = io.ErrUnexpectedEOF\n\t\t\t}\n\t\t\tif err != nil {\n\t\t\t\treturn n, err\n\t\t\t}\n",
     "\t\t\tif err == io.EOF {\n\t\t\t\t// the segment is shorter than its declared length\n\t\t\t\terr = io.ErrUnexpectedEOF\n\t\t\t}\n\t\t\tif err != nil && (k == 0 || err == io.ErrUnexpectedEOF) {\n\t\t\t\treturn n, err\n\t\t\t}\n"))
mut("C13", "countingwriter-hides-error", ("type1/write.go", "\tn, err = w.w.Write(p)\n\tw.n += n\n\treturn n, err\n", "\tn, err = w.w.Write(p)\n\tw.n += n\n\tif n == len(p) {\n\t\terr = nil\n\t}\n\tif n > 0 && n < len(p) {\n\t\treturn len(p), nil\n\t}\n\treturn n, err\n"))

mut("C13", "wrapped-eof-taken-for-eof", ("interpreter.go", "import (\n\t\"fmt\"\n", "import (\n\t\"errors\"\n\t\"fmt\"\n"),
    ("interpreter.go", "\t\to, err := s.ScanToken()\n\t\tif err == io.EOF {\n\t\t\tbreak\n", "\t\to, err := s.ScanToken()\n\t\tif errors.Is(err, io.EOF) {\n\t\t\tbreak\n"))
mut("C13", "afm-footer-write-unchecked", ("afm/write.go", "\treturn write(\"EndFontMetrics\")\n", "\twrite(\"EndFontMetrics\")\n\treturn nil\n"))

# ---- C14
mut("C14", "revert-short-binary-fix", ("pfb/reader.go", "\t\t\tif err == io.EOF {\n\t\t\t\t// the segment is shorter than its declared length\n\t\t\t\terr = io.ErrUnexpectedEOF\n\t\t\t}\n", ""))
mut("C14", "uppercase-parked-nibble", ("pfb/reader.go", "\t\t\t\tr.tail = hexEncode(b[k-1] & 0x0f)\n", "\t\t\t\tr.tail = \"0123456789ABCDEF\"[b[k-1]&0x0f]\n"))
mut("C14", "accept-type-4", ("pfb/reader.go", "buf[1] > 3 {", "buf[1] > 4 {"))
mut("C14", "marker-byte-not-checked-after-first", ("pfb/reader.go", "\t\t\tif buf[0] != 0x80 || buf[1] == 0 || buf[1] > 3 {", "\t\t\tif buf[0]&0x80 == 0 || buf[1] == 0 || buf[1] > 3 {"))
mut("C14", "text-stops-filling", ("pfb/reader.go", "\t\t\tb = b[k:]\n\t\t\tif r.len == 0 {\n\t\t\t\tr.state = 0\n\t\t\t}\n\t\tcase 2:", "\t\t\tb = b[k:]\n\t\t\tif r.len == 0 {\n\t\t\t\tr.state = 0\n\t\t\t\treturn n, nil\n\t\t\t}\n\t\tcase 2:"))

# ---- C17
mut("C17", "revert-afm-ligature-fix", ("afm/write.go", "\t\tsort.Strings(succs)\n", "\t\t_ = sort.Strings\n"))
mut("C17", "readcmap-unsorted-names", ("cmap.go", "\tslices.Sort(names)\n", "\t_ = slices.Sort[[]Name]\n"))
mut("C17", "glyphlist-no-tiebreak", ("type1/font.go", "\t\tif oi != oj {\n\t\t\treturn oi < oj\n\t\t}\n\t\treturn glyphNames[i] < glyphNames[j]\n", "\t\treturn oi < oj\n"))
mut("C17", "afm-glyphlist-no-tiebreak", ("afm/afm.go", "\t\tif oi != oj {\n\t\t\treturn oi < oj\n\t\t}\n\t\treturn glyphNames[i] < glyphNames[j]\n", "\t\treturn oi < oj\n"))
mut("C17", "seac-order-dependent", ("type1/read.go", "\tnames := maps.Keys(cs)\n\tslices.Sort(names)\n", "\tnames := maps.Keys(cs)\n\t_ = slices.Sort[[]postscript.Name]\n"))
mut("C17", "encoding-from-map-order", ("afm/write.go", "\t\tcharCode := -1\n\t\tfor i, n := range m.Encoding {\n\t\t\tif n == name {\n\t\t\t\tcharCode = i\n\t\t\t\tbreak\n\t\t\t}\n\t\t}\n",
     "\t\tcharCode := -1\n\t\tcodes := map[int]string{}\n\t\tfor i, n := range m.Encoding {\n\t\t\tif n == name {\n\t\t\t\tcodes[i] = n\n\t\t\t}\n\t\t}\n\t\tfor i := range codes {\n\t\t\tcharCode = i\n\t\t\tbreak\n\t\t}\n"))

# ---- C18
mut("C18", "names-lookup-without-lock", ("type1/names/names.go", "func (gm *glyphMap) lookup(file, name string) (rune, bool) {\n\tgm.Lock()\n\tdefer gm.Unlock()\n", "func (gm *glyphMap) lookup(file, name string) (rune, bool) {\n"))
mut("C18", "names-encode-double-checked", ("type1/names/names.go", "func (gm *glyphMap) getEncode() map[rune]string {\n\tgm.Lock()\n\tdefer gm.Unlock()\n\n\tif gm.runeToName != nil {\n\t\treturn gm.runeToName\n\t}\n",
     "func (gm *glyphMap) getEncode() map[rune]string {\n\tif gm.runeToName != nil {\n\t\treturn gm.runeToName\n\t}\n\tgm.Lock()\n\tdefer gm.Unlock()\n"))
mut("C18", "share-cidinit", ("interpreter.go", '\t\t\t"CIDInit": maps.Clone(cidInit),\n', '\t\t\t"CIDInit": cidInit,\n'), ("interpreter.go", '\t"maps"\n', ""))
mut("C18", "package-level-standard-encoding", ("builtin.go", "\tstandardEncoding := make(Array, 256)\n\tfor i, name := range psenc.StandardEncoding {\n\t\tstandardEncoding[i] = Name(name)\n\t}\n",
     "\tif standardEncoding == nil {\n\t\tstandardEncoding = make(Array, 256)\n\t\tfor i, name := range psenc.StandardEncoding {\n\t\t\tstandardEncoding[i] = Name(name)\n\t\t}\n\t}\n"),
    ("builtin.go", "func makeSystemDict() Dict {\n", "var standardEncoding Array\n\nfunc makeSystemDict() Dict {\n"))
mut("C18", "shared-error-dict", ("builtin.go", "\terrorDict := Dict{}\n", "\terrorDict := sharedErrorDict\n"), ("builtin.go", "func makeSystemDict() Dict {\n", "var sharedErrorDict = Dict{}\n\nfunc makeSystemDict() Dict {\n"))
mut("C18", "unlocked-tounicode-cache", ("type1/names/names.go", "func ToUnicode(name string, dingbats bool) []rune {\n\tvar res []rune\n", "var toUnicodeCache = map[string][]rune{}\n\nfunc ToUnicode(name string, dingbats bool) []rune {\n\tif r, ok := toUnicodeCache[name]; ok && !dingbats {\n\t\treturn r\n\t}\n\tvar res []rune\n\tdefer func() {\n\t\tif !dingbats && len(toUnicodeCache) < 64 {\n\t\t\ttoUnicodeCache[name] = res\n\t\t}\n\t}()\n"))
mut("C18", "scanner-buffer-reuse", ("scanner.go", "\treturn &scanner{\n\t\tsrc: r,\n\t\tbuf: make([]byte, 512),\n\t}\n", "\tif scratch == nil {\n\t\tscratch = make([]byte, 512)\n\t}\n\treturn &scanner{\n\t\tsrc: r,\n\t\tbuf: scratch,\n\t}\n"),
    ("scanner.go", "func newScanner(r io.Reader) *scanner {\n", "var scratch []byte\n\nfunc newScanner(r io.Reader) *scanner {\n"))
mut("C18", "font-directory-shared-template", ("builtin.go", "\tFontDirectory := Dict{}\n", "\tFontDirectory := sharedFontDirectory\n\tclear(FontDirectory)\n"), ("builtin.go", "func makeSystemDict() Dict {\n", "var sharedFontDirectory = Dict{}\n\nfunc makeSystemDict() Dict {\n"))

mut("C18", "readcmap-watchdog-timer", ("cmap.go", "import (\n\t\"bytes\"\n\t\"fmt\"\n\t\"io\"\n", "import (\n\t\"bytes\"\n\t\"fmt\"\n\t\"io\"\n\t\"time\"\n"),
    ("cmap.go", "\tintp.MaxOps = 1_000_000 // TODO(voss): measure what is required\n\terr := intp.Execute(r)\n", "\tintp.MaxOps = 1_000_000 // TODO(voss): measure what is required\n\twatchdog := time.AfterFunc(5*time.Second, func() { intp.MaxOps = 1 })\n\tdefer watchdog.Stop()\n\terr := intp.Execute(r)\n"))
mut("C18", "cmap-names-sorted-by-worker", ("cmap.go", "\tnames := maps.Keys(intp.CMapDirectory)\n\tslices.Sort(names)\n", "\tnames := maps.Keys(intp.CMapDirectory)\n\tsorted := make(chan struct{})\n\tgo func() { slices.Sort(names); lastNames = names; close(sorted) }()\n\t<-sorted\n"),
    ("cmap.go", "func ReadCMap(r io.Reader) (Dict, error) {\n", "var lastNames []Name\n\nfunc ReadCMap(r io.Reader) (Dict, error) {\n"))

# replacements for mutants that turned out to be equivalent (see DESIGN.md 11)
mut("C12", "pfb-text-counts-requested-bytes", ("pfb/reader.go", "\t\t\tk, err = r.r.Read(b[:k])\n\t\t\tr.len -= int64(k)\n\t\t\tn += k\n", "\t\t\twant := k\n\t\t\tk, err = r.r.Read(b[:k])\n\t\t\tr.len -= int64(want)\n\t\t\tn += k\n"))
mut("C12", "skipoptional-only-buffered", ("scanner.go", "func (s *scanner) SkipOptionalByte(b byte) {\n\tnext, err := s.Peek()", "func (s *scanner) SkipOptionalByte(b byte) {\n\tif len(s.peek) == 0 && s.pos >= s.used && s.eexec == 0 {\n\t\treturn\n\t}\n\tnext, err := s.Peek()"))
mut("C13", "refill-error-cleared-by-later-success", ("scanner.go", "\tif s.err != nil {\n\t\treturn s.err\n\t}\n\ts.used = copy", "\tif s.err == io.EOF {\n\t\treturn s.err\n\t}\n\ts.err = nil\n\ts.used = copy"))
mut("C13", "template-write-error-masked", ("type1/write.go", "\t\treturn tmpl.ExecuteTemplate(w, \"SectionC\", info)\n\n\tcase FormatPFB:", "\t\ttmpl.ExecuteTemplate(w, \"SectionC\", info)\n\t\treturn nil\n\n\tcase FormatPFB:"))
mut("C14", "parked-nibble-from-high-half", ("pfb/reader.go", "\t\t\t\tr.tail = hexEncode(b[k-1] & 0x0f)\n", "\t\t\t\tr.tail = hexEncode(b[k-1] >> 4)\n"))
mut("C14", "length-third-byte-shift", ("pfb/reader.go", "| int64(buf[4])<<16 |", "| int64(buf[4])<<8 |"))
mut("C14", "leftover-state-forgets-segment-end", ("pfb/reader.go", "\t\t\tif r.len == 0 && r.state != -1 {\n\t\t\t\tr.state = 0\n\t\t\t}\n", "\t\t\tif r.len == 0 && r.state != -1 && l > 0 {\n\t\t\t\tr.state = 0\n\t\t\t}\n"))
mut("C17", "creationdate-defaults-to-today", ("type1/read.go", "\tvar creationDate time.Time\n", "\tcreationDate := time.Time{}.Add(time.Duration(time.Now().Unix()/86400%2) * time.Second)\n"))

def sh(cmd, cwd, check=True):
    r = subprocess.run(cmd, cwd=cwd, env=ENV, shell=True, capture_output=True, text=True, errors="replace")
    if check and r.returncode != 0:
        raise RuntimeError(f"{cmd} failed in {cwd}:\n{r.stdout}\n{r.stderr}")
    return r

def main():
    only = set(sys.argv[1:])
    base = tempfile.mkdtemp(prefix="verif-mut-", dir=os.environ.get("VERIF_SCRATCH", "/var/tmp"))
    wt = os.path.join(base, "wt")
    sh(f"git -C {REPO} worktree add -q --detach {wt} HEAD", "/")
    os.makedirs(OUT, exist_ok=True)
    bad = 0
    try:
        for prop, name, edits in M:
            if only and prop not in only and name not in only:
                continue
            sh("git checkout -q -- . && git clean -fdq", wt)
            ok = True
            for (f, old, new) in edits:
                p = os.path.join(wt, f)
                s = open(p).read()
                if s.count(old) != 1:
                    print(f"!! {prop}-{name}: anchor in {f} found {s.count(old)} times"); ok = False; break
                open(p, "w").write(s.replace(old, new))
            if not ok:
                bad += 1; continue
            r = sh("go build ./... && go test -vet=off -count=1 ./...", wt, check=False)
            if r.returncode != 0:
                print(f"!! {prop}-{name}: does not build / fails the suite:\n{(r.stdout + r.stderr)[-600:]}"); bad += 1; continue
            d = sh("git diff", wt).stdout
            open(os.path.join(OUT, f"{prop}-{name}.patch"), "w").write(d)
            print(f"ok {prop}-{name}")
    finally:
        sh(f"git -C {REPO} worktree remove --force {wt}", "/", check=False)
        shutil.rmtree(base, ignore_errors=True)
    sys.exit(1 if bad else 0)

if __name__ == "__main__":
    main()
