#!/usr/bin/env python3
"""Seeded-change bookkeeping.

  seeded.py import <agent OUT dir> <PROP> <n>   copy OUT/<n> to /verif/seeded/<PROP>-s<k>/
  seeded.py verify [ids...]   confirm, in a fresh scratch worktree of /repo: patch applies, builds,
                              suite passes, demo fails with the patch and passes without it
  seeded.py detect [ids...]   run the property's quick check against the patched scratch worktree
                              (VERIF_REPO) and record whether it reports a violation
Results are written into each seeded/<id>/meta.json.
"""
import json, os, re, shutil, subprocess, sys, tempfile, time, glob

VERIF = os.path.dirname(os.path.dirname(os.path.abspath(__file__)))
REPO = os.environ.get("VERIF_REPO", "/repo")
SEEDED = os.path.join(VERIF, "seeded")
ENV = dict(os.environ, GOFLAGS="-mod=mod", GOPROXY="off", GOSUMDB="off", GOTOOLCHAIN="local")
PKGDIR = {"postscript": ".", "pfb": "pfb", "type1": "type1", "afm": "afm", "names": "type1/names", "psenc": "psenc"}


def sh(cmd, cwd, timeout=3600):
    return subprocess.run(cmd, cwd=cwd, env=ENV, shell=True, capture_output=True, text=True, errors="replace", timeout=timeout)


def worktree():
    base = tempfile.mkdtemp(prefix="verif-seed-", dir=os.environ.get("VERIF_SCRATCH", "/var/tmp"))
    wt = os.path.join(base, "wt")
    r = sh(f"git -C {REPO} worktree add -q --detach {wt} HEAD", "/")
    if r.returncode != 0:
        raise RuntimeError(r.stderr)
    return base, wt


def drop(base, wt):
    sh(f"git -C {REPO} worktree remove --force {wt}", "/")
    shutil.rmtree(base, ignore_errors=True)


def load_meta(d):
    p = os.path.join(d, "meta.json")
    return json.load(open(p)) if os.path.exists(p) else {}


def save_meta(d, m):
    json.dump(m, open(os.path.join(d, "meta.json"), "w"), indent=1)
    open(os.path.join(d, "meta.json"), "a").write("\n")


def demo_files(d):
    return sorted(glob.glob(os.path.join(d, "*_test.go")))


def file_pkg(f):
    m = re.search(r"^package (\w+)", open(f).read(), re.M)
    return PKGDIR.get(m.group(1).replace("_test", ""), ".") if m else "."


def demo_pkg(d):
    """space-separated list of package dirs that hold demo files"""
    return " ".join(sorted({"./" + file_pkg(f) for f in demo_files(d)}))


def cmd_import(out, prop, n):
    src = os.path.join(out, str(n))
    k = 1
    while os.path.exists(os.path.join(SEEDED, f"{prop}-s{k}")):
        k += 1
    dst = os.path.join(SEEDED, f"{prop}-s{k}")
    os.makedirs(dst)
    for root, _, files in os.walk(src):
        rel = os.path.relpath(root, src)
        for f in files:
            if f == "README.md" and rel == ".":
                shutil.copy(os.path.join(root, f), os.path.join(dst, "NOTES-from-author.md"))
            else:
                name = f if rel == "." else rel.replace(os.sep, "_") + "_" + f
                shutil.copy(os.path.join(root, f), os.path.join(dst, name))
    save_meta(dst, {"id": f"{prop}-s{k}", "property": prop, "origin": "independent sub-agent given only the property text and a scratch worktree"})
    print("imported", dst)


def ids(args):
    if args:
        return args
    return sorted(os.path.basename(p) for p in glob.glob(os.path.join(SEEDED, "C*-s*")))


def cmd_verify(args):
    for i in ids(args):
        d = os.path.join(SEEDED, i)
        m = load_meta(d)
        base, wt = worktree()
        try:
            pkg = demo_pkg(d)
            race = "-race " if m.get("demo_needs_race") or any("race" in os.path.basename(f) for f in demo_files(d)) else ""
            tests = "'^TestDemo'"
            res = {}
            # clean tree + demo
            for f in demo_files(d):
                shutil.copy(f, os.path.join(wt, file_pkg(f)))
            r = sh(f"go test {race}-vet=off -count=1 -run {tests} {pkg}", wt)
            res["demo_on_clean_tree"] = "pass" if r.returncode == 0 else "FAIL: " + (r.stdout + r.stderr)[-400:]
            for f in demo_files(d):
                os.remove(os.path.join(wt, file_pkg(f), os.path.basename(f)))
            # patched tree
            r = sh(f"git apply {os.path.join(d, 'patch.diff')}", wt)
            res["patch_applies"] = r.returncode == 0
            r = sh("go build ./... && go test -vet=off -count=1 ./...", wt)
            res["builds_and_suite_passes_with_patch"] = r.returncode == 0
            if r.returncode != 0:
                res["suite_output"] = (r.stdout + r.stderr)[-600:]
            for f in demo_files(d):
                shutil.copy(f, os.path.join(wt, file_pkg(f)))
            r = sh(f"go test {race}-vet=off -count=1 -run {tests} {pkg}", wt)
            res["demo_with_patch"] = "fail (as intended)" if r.returncode != 0 else "PASSES (demo does not show the breakage)"
            res["demo_command"] = f"go test {race}-vet=off -count=1 -run {tests} {pkg}"
            res["verified_at"] = time.strftime("%Y-%m-%d %H:%M:%S")
            ok = res["demo_on_clean_tree"] == "pass" and res["patch_applies"] and res["builds_and_suite_passes_with_patch"] and res["demo_with_patch"].startswith("fail")
            res["confirmed"] = ok
            m["verification"] = res
            save_meta(d, m)
            print(i, "confirmed" if ok else "NOT CONFIRMED", res if not ok else "")
        finally:
            drop(base, wt)


def cmd_detect(args):
    tier = os.environ.get("SEEDED_TIER", "quick")
    for i in ids(args):
        d = os.path.join(SEEDED, i)
        m = load_meta(d)
        prop = m["property"]
        base, wt = worktree()
        try:
            r = sh(f"git apply {os.path.join(d, 'patch.diff')}", wt)
            if r.returncode != 0:
                print(i, "patch does not apply"); continue
            rd = os.path.join(base, "replays")
            os.makedirs(rd)
            t0 = time.time()
            evdir = os.path.join(base, "verifdir")
            r = subprocess.run(f"./run.sh {prop} {tier}", cwd=VERIF, shell=True, capture_output=True, text=True,
                               env=dict(ENV, VERIF_REPO=wt, VERIF_REPLAY_DIR=rd, VERIF_EVIDENCE_DIR=os.path.join(base, "ev")))
            dt = time.time() - t0
            lines = [l for l in r.stdout.splitlines() if l.startswith("violation class=") or l.startswith("VIOLATION")]
            det = {"check": f"./run.sh {prop} {tier} (VERIF_REPO=<scratch worktree with patch.diff applied>)", "exit": r.returncode,
                   "detected": r.returncode == 1, "wall_s": round(dt, 1), "report": [l[:400] for l in lines][:2], "at": time.strftime("%Y-%m-%d %H:%M:%S")}
            if r.returncode not in (0, 1):
                det["stderr_tail"] = r.stderr[-800:]
            m.setdefault("detection", {})[tier] = det
            save_meta(d, m)
            print(i, "DETECTED" if det["detected"] else f"missed (exit {r.returncode})", f"{dt:.0f}s", (lines[0][:160] if lines else ""))
        finally:
            drop(base, wt)


if __name__ == "__main__":
    if len(sys.argv) < 2:
        print(__doc__); sys.exit(2)
    if sys.argv[1] == "import":
        cmd_import(sys.argv[2], sys.argv[3], int(sys.argv[4]))
    elif sys.argv[1] == "verify":
        cmd_verify(sys.argv[2:])
    elif sys.argv[1] == "detect":
        cmd_detect(sys.argv[2:])
