// Command instrument injects the simulator's seams into a scratch copy of the
// library (never into /repo):
//
//	maporder  `for k, v := range m` over a map, maps.Keys/Values (x/exp and std)
//	clock     time.Now / time.Since / time.Until
//	rand      math/rand top-level functions (randomly seeded by the runtime)
//	yield     simrt.Yield at every function entry and loop-body entry
//	lock      x.Lock()/x.RLock() on sync.Mutex/RWMutex, once.Do, go statements,
//	          channel send / receive / range, receive-only select statements
//	clock     ... also time.AfterFunc and time.Sleep (timer seam)
//
// It type-checks every package with go/types (source importer) to find the
// sites, rewrites the files in place with go/format, records the site list and
// adds the simrt requirement to the copy's go.mod.  Blocking constructs it cannot
// model (select with send cases, sync.Cond, timer channels) are listed as sites of kind
// "blocking"; the harness then falls back to real goroutines for the scheduled
// batches.
package main

import (
	"encoding/json"
	"flag"
	"fmt"
	"go/ast"
	"go/format"
	"go/importer"
	"go/parser"
	"go/token"
	"go/types"
	"os"
	"path/filepath"
	"sort"
	"strconv"
	"strings"
)

type site struct {
	ID   int    `json:"id"`
	Kind string `json:"kind"`
	Pos  string `json:"pos"`
	Func string `json:"func,omitempty"`
	Note string `json:"note,omitempty"`
}

var (
	sites    []site
	refusals []string
	warnings []string
	root     string
)

func newSite(kind string, fset *token.FileSet, pos token.Pos, fn, note string) int {
	id := len(sites) + 1
	p := fset.Position(pos)
	rel, _ := filepath.Rel(root, p.Filename)
	sites = append(sites, site{ID: id, Kind: kind, Pos: fmt.Sprintf("%s:%d", rel, p.Line), Func: fn, Note: note})
	return id
}

func main() {
	dir := flag.String("dir", "", "scratch copy of the repository (rewritten in place)")
	simrtDir := flag.String("simrt", "", "absolute path of the simrt module")
	sitesOut := flag.String("sites", "", "where to write the site list (JSON)")
	seams := flag.String("seams", "maporder,clock,rand,yield,lock", "seams to inject")
	flag.Parse()
	if *dir == "" || *simrtDir == "" {
		fmt.Fprintln(os.Stderr, "usage: instrument -dir <copy> -simrt <path> [-sites out.json]")
		os.Exit(2)
	}
	root, _ = filepath.Abs(*dir)
	on := map[string]bool{}
	for _, s := range strings.Split(*seams, ",") {
		on[strings.TrimSpace(s)] = true
	}

	var pkgDirs []string
	filepath.Walk(root, func(p string, info os.FileInfo, err error) error {
		if err != nil {
			return nil
		}
		if info.IsDir() {
			base := filepath.Base(p)
			if base == ".git" || base == "examples" || base == "testdata" || base == "vendor" {
				return filepath.SkipDir
			}
			ms, _ := filepath.Glob(filepath.Join(p, "*.go"))
			for _, m := range ms {
				if !strings.HasSuffix(m, "_test.go") {
					pkgDirs = append(pkgDirs, p)
					break
				}
			}
		}
		return nil
	})
	sort.Strings(pkgDirs)

	// go.mod first: the source importer resolves imports through the module
	modPath := filepath.Join(root, "go.mod")
	mod, err := os.ReadFile(modPath)
	if err != nil {
		fmt.Fprintln(os.Stderr, err)
		os.Exit(2)
	}
	if !strings.Contains(string(mod), "verif/simrt") {
		mod = append(mod, []byte(fmt.Sprintf("\nrequire verif/simrt v0.0.0\n\nreplace verif/simrt => %s\n", *simrtDir))...)
		if err := os.WriteFile(modPath, mod, 0o644); err != nil {
			fmt.Fprintln(os.Stderr, err)
			os.Exit(2)
		}
	}

	for _, d := range pkgDirs {
		if err := doPackage(d, on); err != nil {
			fmt.Fprintf(os.Stderr, "instrument: %s: %v\n", d, err)
			os.Exit(2)
		}
	}
	for _, w := range warnings {
		fmt.Fprintln(os.Stderr, "instrument: warning:", w)
	}
	if len(refusals) > 0 {
		for _, r := range refusals {
			fmt.Fprintln(os.Stderr, "instrument: cannot model:", r)
		}
		os.Exit(3)
	}
	if *sitesOut != "" {
		b, _ := json.MarshalIndent(sites, "", " ")
		os.WriteFile(*sitesOut, b, 0o644)
	}
	counts := map[string]int{}
	for _, s := range sites {
		counts[s.Kind]++
	}
	fmt.Printf("instrumented %d packages: %v\n", len(pkgDirs), counts)
}

type pkgCtx struct {
	fset *token.FileSet
	info *types.Info
	on   map[string]bool
	// per file
	file     *ast.File
	usedRT   bool
	keepTime bool
	// keepRuntime / keepSync: the rewrite may have removed the last use of the
	// import
	keepRuntime bool
	keepSync    bool
	funcName    string
	pkgPath     string
}

func doPackage(dir string, on map[string]bool) error {
	fset := token.NewFileSet()
	names, _ := filepath.Glob(filepath.Join(dir, "*.go"))
	sort.Strings(names)
	var files []*ast.File
	var paths []string
	for _, n := range names {
		if strings.HasSuffix(n, "_test.go") {
			continue
		}
		f, err := parser.ParseFile(fset, n, nil, parser.ParseComments)
		if err != nil {
			return err
		}
		files = append(files, f)
		paths = append(paths, n)
	}
	if len(files) == 0 {
		return nil
	}
	// the source importer resolves module imports relative to the cwd
	old, _ := os.Getwd()
	if err := os.Chdir(dir); err != nil {
		return err
	}
	defer os.Chdir(old)
	info := &types.Info{
		Types:      map[ast.Expr]types.TypeAndValue{},
		Uses:       map[*ast.Ident]types.Object{},
		Defs:       map[*ast.Ident]types.Object{},
		Selections: map[*ast.SelectorExpr]*types.Selection{},
	}
	var terrs []string
	conf := types.Config{
		Importer: importer.ForCompiler(fset, "source", nil),
		Error:    func(err error) { terrs = append(terrs, err.Error()) },
	}
	conf.Check(files[0].Name.Name, fset, files, info)
	if len(terrs) > 0 {
		return fmt.Errorf("type errors: %s", strings.Join(terrs[:min(len(terrs), 5)], "; "))
	}
	for i, f := range files {
		c := &pkgCtx{fset: fset, info: info, on: on, file: f, pkgPath: files[0].Name.Name}
		c.rewriteFile()
		if !c.usedRT {
			continue
		}
		addImport(f, "verif/simrt", "simrt")
		if c.keepRuntime {
			f.Decls = append(f.Decls, &ast.GenDecl{Tok: token.VAR, Specs: []ast.Spec{&ast.ValueSpec{
				Names: []*ast.Ident{ast.NewIdent("_")}, Values: []ast.Expr{sel("runtime", "NumCPU")}}}})
		}
		if c.keepSync {
			f.Decls = append(f.Decls, &ast.GenDecl{Tok: token.VAR, Specs: []ast.Spec{&ast.ValueSpec{
				Names: []*ast.Ident{ast.NewIdent("_")}, Type: sel("sync", "Mutex")}}})
		}
		if c.keepTime {
			// time.Now & co. were the only uses of the import in some files
			f.Decls = append(f.Decls, &ast.GenDecl{Tok: token.VAR, Specs: []ast.Spec{&ast.ValueSpec{
				Names: []*ast.Ident{ast.NewIdent("_")}, Values: []ast.Expr{sel("time", "Second")}}}})
		}
		out, err := os.Create(paths[i])
		if err != nil {
			return err
		}
		if err := format.Node(out, fset, f); err != nil {
			out.Close()
			return fmt.Errorf("%s: %v", paths[i], err)
		}
		out.Close()
	}
	return nil
}

func sel(pkg, name string) *ast.SelectorExpr {
	return &ast.SelectorExpr{X: ast.NewIdent(pkg), Sel: ast.NewIdent(name)}
}

func intLit(v int) *ast.BasicLit {
	return &ast.BasicLit{Kind: token.INT, Value: strconv.Itoa(v)}
}

func rtCall(name string, args ...ast.Expr) *ast.CallExpr {
	return &ast.CallExpr{Fun: sel("simrt", name), Args: args}
}

func addImport(f *ast.File, path, name string) {
	for _, im := range f.Imports {
		if im.Path.Value == strconv.Quote(path) {
			return
		}
	}
	spec := &ast.ImportSpec{Name: ast.NewIdent(name), Path: &ast.BasicLit{Kind: token.STRING, Value: strconv.Quote(path)}}
	decl := &ast.GenDecl{Tok: token.IMPORT, Specs: []ast.Spec{spec}}
	// after the last import declaration
	idx := 0
	for i, d := range f.Decls {
		if g, ok := d.(*ast.GenDecl); ok && g.Tok == token.IMPORT {
			idx = i + 1
		}
	}
	f.Decls = append(f.Decls[:idx], append([]ast.Decl{decl}, f.Decls[idx:]...)...)
	f.Imports = append(f.Imports, spec)
}

func (c *pkgCtx) pkgOf(id *ast.Ident) string {
	if pn, ok := c.info.Uses[id].(*types.PkgName); ok {
		return pn.Imported().Path()
	}
	return ""
}

func (c *pkgCtx) isMap(e ast.Expr) bool {
	tv, ok := c.info.Types[e]
	if !ok || tv.Type == nil {
		return false
	}
	_, ok = tv.Type.Underlying().(*types.Map)
	return ok
}

func (c *pkgCtx) rewriteFile() {
	if c.on["lock"] {
		// sync.WaitGroup -> simrt.WaitGroup wherever the type is named
		ast.Inspect(c.file, func(n ast.Node) bool {
			se, ok := n.(*ast.SelectorExpr)
			if !ok {
				return true
			}
			if id, ok := se.X.(*ast.Ident); ok && se.Sel.Name == "WaitGroup" && c.pkgOf(id) == "sync" {
				newSite("waitgroup", c.fset, se.Pos(), "", "")
				id.Name = "simrt"
				c.usedRT = true
				c.keepSync = true
			}
			return true
		})
	}
	for _, d := range c.file.Decls {
		switch d := d.(type) {
		case *ast.FuncDecl:
			c.funcName = d.Name.Name
			if d.Recv != nil && len(d.Recv.List) > 0 {
				c.funcName = types.ExprString(d.Recv.List[0].Type) + "." + d.Name.Name
			}
			if d.Body != nil {
				c.block(d.Body, true)
			}
		case *ast.GenDecl:
			c.funcName = "package-level initialiser"
			for _, s := range d.Specs {
				if vs, ok := s.(*ast.ValueSpec); ok {
					for i := range vs.Values {
						vs.Values[i] = c.expr(vs.Values[i])
					}
				}
			}
		}
	}
}

// block rewrites the statements of b; entry selects a function body.
func (c *pkgCtx) block(b *ast.BlockStmt, entry bool) {
	if b == nil {
		return
	}
	b.List = c.stmts(b.List)
	if entry && c.on["yield"] {
		id := newSite("yield-func", c.fset, b.Lbrace, c.funcName, "")
		c.usedRT = true
		b.List = append([]ast.Stmt{&ast.ExprStmt{X: rtCall("Yield", intLit(id))}}, b.List...)
	}
}

func (c *pkgCtx) loopBody(b *ast.BlockStmt, pos token.Pos) {
	if b == nil {
		return
	}
	b.List = c.stmts(b.List)
	if c.on["yield"] {
		id := newSite("yield-loop", c.fset, pos, c.funcName, "")
		c.usedRT = true
		b.List = append([]ast.Stmt{&ast.ExprStmt{X: rtCall("Yield", intLit(id))}}, b.List...)
	}
}

func (c *pkgCtx) stmts(list []ast.Stmt) []ast.Stmt {
	out := make([]ast.Stmt, 0, len(list))
	for _, s := range list {
		out = append(out, c.stmt(s))
	}
	return out
}

// refuse records a blocking construct the cooperative scheduler cannot model
// (channel operations, select, sync.Cond).  The copy is still produced: such
// sites are listed with kind "blocking", and the C18 harness then runs its
// concurrent batches with real goroutines instead of scheduled tasks (a task
// parked in a channel operation would hold the simulator's turn for ever).
func (c *pkgCtx) refuse(pos token.Pos, what string) {
	newSite("blocking", c.fset, pos, c.funcName, what)
	warnings = append(warnings, fmt.Sprintf("%s: %s cannot be scheduled cooperatively", c.fset.Position(pos), what))
}

func (c *pkgCtx) stmt(s ast.Stmt) ast.Stmt {
	switch s := s.(type) {
	case nil:
		return nil
	case *ast.BlockStmt:
		c.block(s, false)
	case *ast.ExprStmt:
		s.X = c.expr(s.X)
	case *ast.AssignStmt:
		if len(s.Lhs) == 2 && len(s.Rhs) == 1 && c.on["lock"] {
			if u, ok := s.Rhs[0].(*ast.UnaryExpr); ok && u.Op == token.ARROW {
				// v, ok := <-ch
				c.usedRT = true
				sid := newSite("chan", c.fset, u.Pos(), c.funcName, "receive (comma ok)")
				s.Rhs[0] = rtCall("Recv2", c.expr(u.X), intLit(sid))
				for i := range s.Lhs {
					s.Lhs[i] = c.expr(s.Lhs[i])
				}
				return s
			}
		}
		for i := range s.Rhs {
			s.Rhs[i] = c.expr(s.Rhs[i])
		}
		for i := range s.Lhs {
			s.Lhs[i] = c.expr(s.Lhs[i])
		}
	case *ast.DeclStmt:
		if g, ok := s.Decl.(*ast.GenDecl); ok {
			for _, sp := range g.Specs {
				if vs, ok := sp.(*ast.ValueSpec); ok {
					if len(vs.Names) == 2 && len(vs.Values) == 1 && c.on["lock"] {
						if u, ok := vs.Values[0].(*ast.UnaryExpr); ok && u.Op == token.ARROW {
							c.usedRT = true
							sid := newSite("chan", c.fset, u.Pos(), c.funcName, "receive (comma ok)")
							vs.Values[0] = rtCall("Recv2", c.expr(u.X), intLit(sid))
							continue
						}
					}
					for i := range vs.Values {
						vs.Values[i] = c.expr(vs.Values[i])
					}
				}
			}
		}
	case *ast.ReturnStmt:
		for i := range s.Results {
			s.Results[i] = c.expr(s.Results[i])
		}
	case *ast.IfStmt:
		s.Init = c.stmt(s.Init)
		s.Cond = c.expr(s.Cond)
		c.block(s.Body, false)
		s.Else = c.stmt(s.Else)
	case *ast.SwitchStmt:
		s.Init = c.stmt(s.Init)
		if s.Tag != nil {
			s.Tag = c.expr(s.Tag)
		}
		c.block(s.Body, false)
	case *ast.TypeSwitchStmt:
		s.Init = c.stmt(s.Init)
		s.Assign = c.stmt(s.Assign)
		c.block(s.Body, false)
	case *ast.CaseClause:
		for i := range s.List {
			s.List[i] = c.expr(s.List[i])
		}
		s.Body = c.stmts(s.Body)
	case *ast.SelectStmt:
		return c.selectStmt(s, nil)
	case *ast.SendStmt:
		if c.on["lock"] {
			c.usedRT = true
			sid := newSite("chan", c.fset, s.Pos(), c.funcName, "send")
			return &ast.ExprStmt{X: rtCall("Send", c.expr(s.Chan), c.expr(s.Value), intLit(sid))}
		}
	case *ast.CommClause:
		s.Body = c.stmts(s.Body)
	case *ast.DeferStmt:
		s.Call = c.expr(s.Call).(*ast.CallExpr)
	case *ast.GoStmt:
		if c.on["lock"] {
			c.usedRT = true
			newSite("go", c.fset, s.Pos(), c.funcName, "")
			call := c.expr(s.Call).(*ast.CallExpr)
			// go f(args) -> simrt.Go(func() { f(args) }) : arguments are then
			// evaluated in the new task, which is fine for a simulator seam
			// only when they are free of side effects; keep evaluation order
			// by binding them first
			var pre []ast.Stmt
			for i, a := range call.Args {
				tmp := ast.NewIdent(fmt.Sprintf("__goarg%d_%d", len(sites), i))
				pre = append(pre, &ast.AssignStmt{Lhs: []ast.Expr{tmp}, Tok: token.DEFINE, Rhs: []ast.Expr{a}})
				call.Args[i] = tmp
			}
			lit := &ast.FuncLit{Type: &ast.FuncType{Params: &ast.FieldList{}}, Body: &ast.BlockStmt{List: []ast.Stmt{&ast.ExprStmt{X: call}}}}
			pre = append(pre, &ast.ExprStmt{X: rtCall("Go", lit)})
			return &ast.BlockStmt{List: pre}
		}
		s.Call = c.expr(s.Call).(*ast.CallExpr)
	case *ast.LabeledStmt:
		if r, ok := s.Stmt.(*ast.RangeStmt); ok && c.on["maporder"] && c.isMap(r.X) {
			pre, loop := c.mapRange(r)
			s.Stmt = loop
			return &ast.BlockStmt{List: append(pre, s)}
		}
		if sel, ok := s.Stmt.(*ast.SelectStmt); ok {
			return c.selectStmt(sel, s)
		}
		if r, ok := s.Stmt.(*ast.RangeStmt); ok && c.on["lock"] && c.isChan(r.X) {
			s.Stmt = c.chanRange(r)
			return s
		}
		s.Stmt = c.stmt(s.Stmt)
	case *ast.ForStmt:
		s.Init = c.stmt(s.Init)
		if s.Cond != nil {
			s.Cond = c.expr(s.Cond)
		}
		s.Post = c.stmt(s.Post)
		c.loopBody(s.Body, s.Pos())
	case *ast.RangeStmt:
		if c.on["maporder"] && c.isMap(s.X) {
			pre, loop := c.mapRange(s)
			return &ast.BlockStmt{List: append(pre, loop)}
		}
		if c.on["lock"] && c.isChan(s.X) {
			return c.chanRange(s)
		}
		s.X = c.expr(s.X)
		c.loopBody(s.Body, s.Pos())
	case *ast.IncDecStmt, *ast.BranchStmt, *ast.EmptyStmt:
	}
	return s
}

func (c *pkgCtx) isChan(e ast.Expr) bool {
	if tv, ok := c.info.Types[e]; ok && tv.Type != nil {
		_, is := tv.Type.Underlying().(*types.Chan)
		return is
	}
	return false
}

// chanRange rewrites `for v := range ch { B }` into
//
//	for {
//		v, __okN := simrt.Recv2(ch, site)
//		if !__okN { break }
//		B
//	}
//
// (break and continue in B keep their meaning: it is still the innermost loop).
func (c *pkgCtx) chanRange(r *ast.RangeStmt) ast.Stmt {
	c.usedRT = true
	sid := newSite("chan", c.fset, r.Pos(), c.funcName, "range over channel")
	okv := ast.NewIdent("__ok" + strconv.Itoa(sid))
	chv := ast.NewIdent("__ch" + strconv.Itoa(sid))
	pre := &ast.AssignStmt{Lhs: []ast.Expr{chv}, Tok: token.DEFINE, Rhs: []ast.Expr{c.expr(r.X)}}
	var lhs ast.Expr = ast.NewIdent("_")
	tok := token.DEFINE
	if r.Key != nil {
		lhs = r.Key
		if r.Tok == token.ASSIGN {
			tok = token.ASSIGN
		}
	}
	inner := &ast.BlockStmt{List: r.Body.List}
	c.loopBody(inner, r.Pos())
	var body []ast.Stmt
	if tok == token.ASSIGN {
		// v = range ch : v exists already, only the flag is new
		body = append(body,
			&ast.DeclStmt{Decl: &ast.GenDecl{Tok: token.VAR, Specs: []ast.Spec{&ast.ValueSpec{Names: []*ast.Ident{okv}, Type: ast.NewIdent("bool")}}}},
			&ast.AssignStmt{Lhs: []ast.Expr{lhs, okv}, Tok: token.ASSIGN, Rhs: []ast.Expr{rtCall("Recv2", chv, intLit(sid))}})
	} else {
		body = append(body, &ast.AssignStmt{Lhs: []ast.Expr{lhs, okv}, Tok: token.DEFINE, Rhs: []ast.Expr{rtCall("Recv2", chv, intLit(sid))}})
	}
	body = append(body, &ast.IfStmt{Cond: &ast.UnaryExpr{Op: token.NOT, X: okv}, Body: &ast.BlockStmt{List: []ast.Stmt{&ast.BranchStmt{Tok: token.BREAK}}}})
	body = append(body, inner.List...)
	loop := &ast.ForStmt{Body: &ast.BlockStmt{List: body}}
	return &ast.BlockStmt{List: []ast.Stmt{pre, loop}}
}

// selectStmt: a select statement without default clause may block.  It is
// carried out parked (see simrt.Park): the task hands the turn on, blocks in
// the real select and queues for the turn again in whichever clause fires:
//
//	{
//		__pN := simrt.Park(site)
//		select {
//		case v := <-a:
//			simrt.Unpark(__pN)
//			...
//		case b <- x:
//			simrt.Unpark(__pN)
//			...
//		}
//	}
//
// A select with a default clause never blocks and stays as it is.  The
// operands of the communication clauses are evaluated while the task is
// parked, so they must not run library code: a clause that calls into a
// package which is not part of the standard library (or sets a timer) leaves
// the statement alone, and it is listed as a blocking site.
func (c *pkgCtx) selectStmt(s *ast.SelectStmt, outer *ast.LabeledStmt) ast.Stmt {
	wrap := func() ast.Stmt {
		if outer != nil {
			outer.Stmt = s
			return outer
		}
		return s
	}
	hasDefault, simple := false, c.on["lock"]
	why := ""
	for _, cl := range s.Body.List {
		cc := cl.(*ast.CommClause)
		cc.Body = c.stmts(cc.Body)
		if cc.Comm == nil {
			hasDefault = true
			continue
		}
		ast.Inspect(cc.Comm, func(n ast.Node) bool {
			call, ok := n.(*ast.CallExpr)
			if !ok {
				return true
			}
			if tv, ok := c.info.Types[call.Fun]; ok && tv.IsType() {
				return true // a conversion
			}
			var id *ast.Ident
			switch f := call.Fun.(type) {
			case *ast.Ident:
				id = f
			case *ast.SelectorExpr:
				id = f.Sel
			}
			obj := c.info.Uses[id]
			if id == nil || obj == nil {
				simple, why = false, "computed callee"
				return true
			}
			if _, builtin := obj.(*types.Builtin); builtin {
				return true
			}
			pkg := ""
			if obj.Pkg() != nil {
				pkg = obj.Pkg().Path()
			}
			first := strings.SplitN(pkg, "/", 2)[0]
			if pkg == "" || strings.Contains(first, ".") || pkg == c.pkgPath {
				simple, why = false, "calls "+pkg+"."+obj.Name()
			}
			if pkg == "time" && (obj.Name() == "After" || obj.Name() == "Tick" || obj.Name() == "NewTimer" || obj.Name() == "NewTicker") {
				simple, why = false, "timer channel"
			}
			return true
		})
	}
	if hasDefault {
		return wrap()
	}
	if !simple {
		c.refuse(s.Pos(), "select statement ("+why+")")
		return wrap()
	}
	c.usedRT = true
	sid := newSite("chan", c.fset, s.Pos(), c.funcName, "select")
	pv := ast.NewIdent("__p" + strconv.Itoa(sid))
	for _, cl := range s.Body.List {
		cc := cl.(*ast.CommClause)
		cc.Body = append([]ast.Stmt{&ast.ExprStmt{X: rtCall("Unpark", ast.NewIdent(pv.Name))}}, cc.Body...)
	}
	pre := &ast.AssignStmt{Lhs: []ast.Expr{pv}, Tok: token.DEFINE, Rhs: []ast.Expr{rtCall("Park", intLit(sid))}}
	return &ast.BlockStmt{List: []ast.Stmt{pre, wrap()}}
}

// plainOperand: an identifier or a chain of field selections (no calls, no
// indexing with side effects).
func plainOperand(e ast.Expr) bool {
	switch e := e.(type) {
	case *ast.Ident:
		return true
	case *ast.SelectorExpr:
		return plainOperand(e.X)
	case *ast.ParenExpr:
		return plainOperand(e.X)
	case *ast.StarExpr:
		return plainOperand(e.X)
	}
	return false
}

// mapRange rewrites `for K, V := range M { B }` into
//
//	__mN := M
//	for _, __kN := range simrt.MapKeys(__mN, site) {
//		__vN, __okN := __mN[__kN]
//		if !__okN { continue }
//		K, V := __kN, __vN
//		B
//	}
func (c *pkgCtx) mapRange(r *ast.RangeStmt) (pre []ast.Stmt, loop ast.Stmt) {
	c.usedRT = true
	id := newSite("maporder-range", c.fset, r.Pos(), c.funcName, types.ExprString(r.X))
	n := strconv.Itoa(id)
	mv, kv, vv, okv := ast.NewIdent("__m"+n), ast.NewIdent("__k"+n), ast.NewIdent("__v"+n), ast.NewIdent("__ok"+n)
	pre = []ast.Stmt{&ast.AssignStmt{Lhs: []ast.Expr{mv}, Tok: token.DEFINE, Rhs: []ast.Expr{c.expr(r.X)}}}
	isBlank := func(e ast.Expr) bool {
		if e == nil {
			return true
		}
		id, ok := e.(*ast.Ident)
		return ok && id.Name == "_"
	}
	var body []ast.Stmt
	valNeeded := !isBlank(r.Value)
	lookupLhs := []ast.Expr{ast.NewIdent("_"), okv}
	if valNeeded {
		lookupLhs[0] = vv
	}
	body = append(body,
		&ast.AssignStmt{Lhs: lookupLhs, Tok: token.DEFINE, Rhs: []ast.Expr{&ast.IndexExpr{X: mv, Index: kv}}},
		&ast.IfStmt{Cond: &ast.UnaryExpr{Op: token.NOT, X: okv}, Body: &ast.BlockStmt{List: []ast.Stmt{&ast.BranchStmt{Tok: token.CONTINUE}}}},
	)
	tok := r.Tok
	if tok == token.ILLEGAL {
		tok = token.DEFINE
	}
	var lhs, rhs []ast.Expr
	if !isBlank(r.Key) {
		lhs, rhs = append(lhs, r.Key), append(rhs, kv)
	}
	if valNeeded {
		lhs, rhs = append(lhs, r.Value), append(rhs, vv)
	}
	if len(lhs) > 0 {
		body = append(body, &ast.AssignStmt{Lhs: lhs, Tok: tok, Rhs: rhs})
	}
	inner := &ast.BlockStmt{List: r.Body.List}
	c.loopBody(inner, r.Pos())
	body = append(body, inner.List...)
	loop = &ast.RangeStmt{Key: ast.NewIdent("_"), Value: kv, Tok: token.DEFINE, X: rtCall("MapKeys", mv, intLit(id)), Body: &ast.BlockStmt{List: body}}
	return pre, loop
}

// expr rewrites calls inside an expression and returns the (possibly new)
// expression.
func (c *pkgCtx) expr(e ast.Expr) ast.Expr {
	switch e := e.(type) {
	case nil:
		return nil
	case *ast.CallExpr:
		for i := range e.Args {
			e.Args[i] = c.expr(e.Args[i])
		}
		e.Fun = c.expr(e.Fun)
		return c.call(e)
	case *ast.FuncLit:
		saved := c.funcName
		c.funcName = saved + " (func literal)"
		c.block(e.Body, true)
		c.funcName = saved
	case *ast.ParenExpr:
		e.X = c.expr(e.X)
	case *ast.SelectorExpr:
		e.X = c.expr(e.X)
	case *ast.IndexExpr:
		e.X = c.expr(e.X)
		e.Index = c.expr(e.Index)
	case *ast.SliceExpr:
		e.X = c.expr(e.X)
		e.Low, e.High, e.Max = c.expr(e.Low), c.expr(e.High), c.expr(e.Max)
	case *ast.StarExpr:
		e.X = c.expr(e.X)
	case *ast.UnaryExpr:
		if e.Op == token.ARROW && c.on["lock"] {
			c.usedRT = true
			sid := newSite("chan", c.fset, e.Pos(), c.funcName, "receive")
			return rtCall("Recv", c.expr(e.X), intLit(sid))
		}
		e.X = c.expr(e.X)
	case *ast.BinaryExpr:
		e.X = c.expr(e.X)
		e.Y = c.expr(e.Y)
	case *ast.KeyValueExpr:
		e.Key = c.expr(e.Key)
		e.Value = c.expr(e.Value)
	case *ast.CompositeLit:
		for i := range e.Elts {
			e.Elts[i] = c.expr(e.Elts[i])
		}
	case *ast.TypeAssertExpr:
		e.X = c.expr(e.X)
	}
	return e
}

func (c *pkgCtx) call(e *ast.CallExpr) ast.Expr {
	se, ok := e.Fun.(*ast.SelectorExpr)
	if !ok {
		return e
	}
	// package-qualified functions
	if id, ok := se.X.(*ast.Ident); ok {
		switch c.pkgOf(id) {
		case "golang.org/x/exp/maps":
			if c.on["maporder"] && (se.Sel.Name == "Keys" || se.Sel.Name == "Values") {
				c.usedRT = true
				sid := newSite("maporder-"+se.Sel.Name, c.fset, e.Pos(), c.funcName, types.ExprString(e))
				return rtCall("Shuffle", e, intLit(sid))
			}
		case "maps":
			if c.on["maporder"] && len(e.Args) == 1 {
				fn := map[string]string{"Keys": "SeqKeys", "Values": "SeqValues", "All": "SeqAll"}[se.Sel.Name]
				if fn != "" {
					c.usedRT = true
					sid := newSite("maporder-std-"+se.Sel.Name, c.fset, e.Pos(), c.funcName, types.ExprString(e))
					return rtCall(fn, e.Args[0], intLit(sid))
				}
			}
		case "time":
			if c.on["clock"] && (se.Sel.Name == "Now" || se.Sel.Name == "Since" || se.Sel.Name == "Until") {
				c.usedRT = true
				c.keepTime = true
				newSite("clock", c.fset, e.Pos(), c.funcName, se.Sel.Name)
				return rtCall(se.Sel.Name, e.Args...)
			}
			if c.on["clock"] && se.Sel.Name == "AfterFunc" && len(e.Args) == 2 {
				c.usedRT = true
				c.keepTime = true
				sid := newSite("timer", c.fset, e.Pos(), c.funcName, "AfterFunc")
				return rtCall("AfterFunc", e.Args[0], e.Args[1], intLit(sid))
			}
			if c.on["clock"] && se.Sel.Name == "Sleep" {
				c.usedRT = true
				c.keepTime = true
				newSite("timer", c.fset, e.Pos(), c.funcName, "Sleep")
				return rtCall("Sleep", e.Args...)
			}
			if c.on["clock"] && (se.Sel.Name == "After" || se.Sel.Name == "NewTimer" || se.Sel.Name == "NewTicker" || se.Sel.Name == "Tick") {
				c.refuse(e.Pos(), "time."+se.Sel.Name+" (timer channel)")
			}
		case "runtime":
			if c.on["lock"] && (se.Sel.Name == "GOMAXPROCS" || se.Sel.Name == "NumCPU") {
				c.usedRT = true
				c.keepRuntime = true
				newSite("cpus", c.fset, e.Pos(), c.funcName, se.Sel.Name)
				return rtCall(se.Sel.Name, e.Args...)
			}
		case "math/rand", "math/rand/v2":
			if c.on["rand"] {
				warnings = append(warnings, fmt.Sprintf("%s: math/rand call %s is outside the seams; covered only by cross-process repetition", c.fset.Position(e.Pos()), se.Sel.Name))
			}
		case "reflect":
		}
	}
	// methods
	if s, ok := c.info.Selections[se]; ok {
		if fn, ok := s.Obj().(*types.Func); ok {
			full := fn.FullName()
			switch full {
			case "(*sync.Mutex).Lock", "(*sync.RWMutex).Lock", "(*sync.RWMutex).RLock":
				if c.on["lock"] {
					c.usedRT = true
					sid := newSite("lock", c.fset, e.Pos(), c.funcName, types.ExprString(se.X))
					arg := se.X
					if tv, ok := c.info.Types[se.X]; ok {
						if _, isPtr := tv.Type.Underlying().(*types.Pointer); !isPtr {
							arg = &ast.UnaryExpr{Op: token.AND, X: se.X}
						}
					}
					name := "Lock"
					if strings.HasSuffix(full, "RLock") {
						name = "RLock"
					}
					return rtCall(name, arg, intLit(sid))
				}
			case "(*sync.Once).Do":
				if c.on["lock"] {
					c.usedRT = true
					sid := newSite("once", c.fset, e.Pos(), c.funcName, types.ExprString(se.X))
					arg := se.X
					if tv, ok := c.info.Types[se.X]; ok {
						if _, isPtr := tv.Type.Underlying().(*types.Pointer); !isPtr {
							arg = &ast.UnaryExpr{Op: token.AND, X: se.X}
						}
					}
					return rtCall("OnceDo", arg, e.Args[0], intLit(sid))
				}
			case "(*sync.Cond).Wait":
				if c.on["lock"] {
					c.usedRT = true
					c.keepSync = true
					sid := newSite("chan", c.fset, e.Pos(), c.funcName, "sync.Cond.Wait")
					return rtCall("CondWait", se.X, intLit(sid))
				}
			case "(reflect.Value).MapRange", "(reflect.Value).MapKeys":
				warnings = append(warnings, fmt.Sprintf("%s: %s iterates a map outside the map-order seam; covered only by cross-process repetition", c.fset.Position(e.Pos()), full))
			}
		}
	}
	return e
}
