#!/usr/bin/env python3
"""Self-tests of the simulator (run before any result is believed).

  selftest.py selftest-determinism [props...]
      For every property: several VERIF_SEED values, each executed several times
      in separate processes at GOMAXPROCS 1, 4 and 16 (reduced run counts via
      VERIF_SCALE).  The evidence files - all counters, the number of distinct
      cases and of distinct schedule fingerprints, minus wall-clock fields and
      the arbitrary sample list - must be identical for equal seeds.

  selftest.py selftest-sensitivity [props or mutant names...]
      Applies every patch of /verif/mutants (and /verif/seeded/*/patch.diff with
      SELFTEST_SEEDED=1) to a fresh scratch worktree of /repo, one at a time, and
      runs the property's quick check against it (VERIF_REPO): each must exit 1
      with a VIOLATION line; the unpatched tree must exit 0.
"""
import glob, hashlib, json, os, shutil, subprocess, sys, tempfile, time

VERIF = os.path.dirname(os.path.dirname(os.path.abspath(__file__)))
REPO = os.environ.get("VERIF_REPO", "/repo")
ENV = dict(os.environ, GOFLAGS="-mod=mod", GOPROXY="off", GOSUMDB="off", GOTOOLCHAIN="local")
PROPS = ["C11", "C12", "C13", "C14", "C17", "C18"]


def norm(ev):
    cov = dict(ev["coverage"])
    for k in ("samples", "runs_per_hour", "batches"):
        cov.pop(k, None)
    if isinstance(cov.get("simulated_time"), dict):
        cov["simulated_time"] = {k: v for k, v in cov["simulated_time"].items() if k != "events_per_hour"}
    b = {k: {kk: vv for kk, vv in v.items() if kk != "wall_s"} for k, v in ev["coverage"].get("batches", {}).items()}
    cov["batches"] = b
    return json.dumps({"cov": cov, "violations": ev.get("violations")}, sort_keys=True)


def determinism(props):
    props = props or PROPS
    seeds = [int(x) for x in os.environ.get("SELFTEST_SEEDS", "1,2,3,5,8,13,21,34").split(",")]
    scale = os.environ.get("SELFTEST_SCALE", "0.02")
    bad = 0
    total = 0
    for p in props:
        for seed in seeds:
            digests = {}
            for gmp in ("1", "4", "16"):
                for rep in range(2 if gmp == "16" else 1):
                    d = tempfile.mkdtemp(prefix="verif-det-", dir=os.environ.get("VERIF_SCRATCH", "/var/tmp"))
                    env = dict(ENV, VERIF_SEED=str(seed), VERIF_SCALE=scale, GOMAXPROCS=gmp, VERIF_EVIDENCE_DIR=d, VERIF_REPLAY_DIR=d)
                    r = subprocess.run(f"./run.sh {p} quick", cwd=VERIF, shell=True, env=env, capture_output=True, text=True, errors="replace")
                    total += 1
                    try:
                        ev = json.load(open(os.path.join(d, p + ".json")))
                        h = hashlib.sha256(norm(ev).encode()).hexdigest()[:16]
                    except Exception as e:
                        h = f"no-evidence(exit {r.returncode}): {r.stderr[-300:]}"
                    digests.setdefault(h, []).append(f"GOMAXPROCS={gmp}#{rep} exit={r.returncode}")
                    shutil.rmtree(d, ignore_errors=True)
            if len(digests) != 1:
                bad += 1
                print(f"NONDETERMINISTIC {p} seed={seed}: {digests}")
            else:
                print(f"ok {p} seed={seed} digest={list(digests)[0]} ({list(digests.values())[0]})")
            sys.stdout.flush()
    print(f"determinism self-test: {total} executions, {bad} divergent (seed, property) pairs")
    return 1 if bad else 0


def sh(cmd, cwd):
    return subprocess.run(cmd, cwd=cwd, env=ENV, shell=True, capture_output=True, text=True, errors="replace")


def sensitivity(sel):
    patches = []
    for f in sorted(glob.glob(os.path.join(VERIF, "mutants", "*.patch"))):
        name = os.path.basename(f)[:-6]
        patches.append((name.split("-")[0], name, f))
    if os.environ.get("SELFTEST_SEEDED") == "1":
        for d in sorted(glob.glob(os.path.join(VERIF, "seeded", "C*-s*"))):
            name = os.path.basename(d)
            patches.append((name.split("-")[0], name, os.path.join(d, "patch.diff")))
    if sel:
        patches = [x for x in patches if x[0] in sel or x[1] in sel]
    props = sorted({p for p, _, _ in patches})
    base = tempfile.mkdtemp(prefix="verif-sens-", dir=os.environ.get("VERIF_SCRATCH", "/var/tmp"))
    wt = os.path.join(base, "wt")
    r = sh(f"git -C {REPO} worktree add -q --detach {wt} HEAD", "/")
    if r.returncode != 0:
        print(r.stderr); return 2
    results = {}
    missed = 0
    try:
        env = dict(ENV, VERIF_REPO=wt, VERIF_EVIDENCE_DIR=os.path.join(base, "ev"), VERIF_REPLAY_DIR=os.path.join(base, "rp"))
        if not os.environ.get("SELFTEST_SKIP_CLEAN"):
            for p in props:
                r = subprocess.run(f"./run.sh {p} quick", cwd=VERIF, shell=True, env=env, capture_output=True, text=True, errors="replace")
                print(f"clean tree {p}: exit {r.returncode}")
                if r.returncode != 0:
                    print(r.stdout[-500:], r.stderr[-500:]); missed += 1
        for p, name, f in patches:
            sh("git checkout -q -- . && git clean -fdq", wt)
            r = sh(f"git apply {f}", wt)
            if r.returncode != 0:
                print(f"{name}: patch does not apply: {r.stderr[-200:]}"); missed += 1; continue
            t0 = time.time()
            r = subprocess.run(f"./run.sh {p} quick", cwd=VERIF, shell=True, env=env, capture_output=True, text=True, errors="replace")
            line = next((l for l in r.stdout.splitlines() if l.startswith("violation class=")), "")
            ok = r.returncode == 1
            results[name] = {"detected": ok, "exit": r.returncode, "wall_s": round(time.time() - t0, 1), "report": line[:300]}
            print(f"{'DETECTED' if ok else 'MISSED  '} {name} ({time.time() - t0:.0f}s) {line[:150]}")
            if r.returncode not in (0, 1):
                print("   stderr:", r.stderr[-400:])
            if not ok:
                missed += 1
            sys.stdout.flush()
    finally:
        sh(f"git -C {REPO} worktree remove --force {wt}", "/")
        shutil.rmtree(base, ignore_errors=True)
    out = os.environ.get("SELFTEST_OUT")
    if out:
        json.dump(results, open(out, "w"), indent=1)
    print(f"sensitivity self-test: {len(results)} mutants, {sum(1 for v in results.values() if v['detected'])} detected, {missed} problems")
    return 1 if missed else 0


if __name__ == "__main__":
    if len(sys.argv) < 2:
        print(__doc__); sys.exit(2)
    if sys.argv[1] == "selftest-determinism":
        sys.exit(determinism(sys.argv[2:]))
    if sys.argv[1] == "selftest-sensitivity":
        sys.exit(sensitivity(sys.argv[2:]))
    print(__doc__); sys.exit(2)
