#!/usr/bin/env python3
"""Prints the detection tables of DESIGN.md section 11 from sens.json (written by
selftest-sensitivity) and seeded/*/meta.json (written by seeded.py)."""
import glob, json, os, re, sys

VERIF = os.path.dirname(os.path.dirname(os.path.abspath(__file__)))


def short(report):
    m = re.match(r"violation class=(\S+) batch=(\S+)", report or "")
    return f"`{m.group(2)}` / {m.group(1)}" if m else "-"


def first_line(path):
    try:
        for l in open(path):
            l = l.strip()
            if l.startswith("#"):
                return l.lstrip("# ").strip()
    except OSError:
        pass
    return ""


def main():
    sens = {}
    p = sys.argv[1] if len(sys.argv) > 1 else os.path.join(VERIF, "sens.json")
    if os.path.exists(p):
        sens = json.load(open(p))
    print("| mutant (mutants/<name>.patch) | detected by (batch / class) | wall |")
    print("|---|---|---|")
    for name in sorted(sens):
        v = sens[name]
        print(f"| {name} | {short(v['report']) if v['detected'] else '**missed** (exit %s)' % v['exit']} | {v['wall_s']:.0f} s |")
    print()
    print("| seeded change | what it does (author's title) | demo confirmed | detected by (quick tier) | wall |")
    print("|---|---|---|---|---|")
    for d in sorted(glob.glob(os.path.join(VERIF, "seeded", "C*-s*")), key=lambda x: (x.split("-s")[0], int(x.split("-s")[1]))):
        m = json.load(open(os.path.join(d, "meta.json")))
        det = m.get("detection", {}).get("quick", {})
        title = m.get("what") or first_line(os.path.join(d, "NOTES-from-author.md"))
        rep = det.get("report") or [""]
        print(f"| {m['id']} | {title[:110]} | {'yes' if m.get('verification', {}).get('confirmed') else 'NO'} | {short(rep[0]) if det.get('detected') else '**not reported** ' + m.get('why_not', '')} | {det.get('wall_s', 0):.0f} s |")


if __name__ == "__main__":
    main()
