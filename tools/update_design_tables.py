#!/usr/bin/env python3
"""Rewrites the two generated tables of DESIGN.md (between the MUTANT_TABLE and
SEEDED_TABLE markers) from sens.json and seeded/*/meta.json."""
import os, subprocess, sys
VERIF = os.path.dirname(os.path.dirname(os.path.abspath(__file__)))
out = subprocess.run([sys.executable, os.path.join(VERIF, "tools", "report.py")], capture_output=True, text=True, check=True).stdout
mut, seeded = out.split("\n\n", 1)
p = os.path.join(VERIF, "DESIGN.md")
s = open(p).read()
def put(s, name, body):
    a, b = f"<!-- {name}_BEGIN -->", f"<!-- {name}_END -->"
    i, j = s.index(a) + len(a), s.index(b)
    return s[:i] + "\n" + body.strip() + "\n" + s[j:]
s = put(s, "MUTANT_TABLE", mut)
s = put(s, "SEEDED_TABLE", seeded)
open(p, "w").write(s)
print("tables updated:", mut.count("\n") - 1, "mutants,", seeded.count("\n") - 1, "seeded changes")
