#!/bin/bash
# Runs the complete self-validation cycle from the directory it lives in:
# sensitivity over the mutant catalogue and the seeded changes, then the
# determinism self-test.  Results: sens.json, seeded/*/meta.json, determinism.log
cd "$(dirname "$0")/.." || exit 2
SELFTEST_OUT=sens.json python3 tools/selftest.py selftest-sensitivity
echo "=== seeded detect"
python3 tools/seeded.py detect
echo "=== determinism"
python3 tools/selftest.py selftest-determinism | tee determinism.log
