// Package sim is the deterministic-simulation core: the choice tape from which
// every schedule, fault and generated input is drawn, the simulated I/O
// endpoints, the tape shrinker and the batch driver.
package sim

// Tape is the single source of nondeterminism of a run.  In record mode every
// draw comes from a splitmix64 PRNG and is appended to Rec; in replay mode
// draws are taken from a recorded slice (0 once it is exhausted, reduced modulo
// the requested range), so that any []uint32 is a valid run.
type Tape struct {
	state  uint64
	replay bool
	in     []uint32
	pos    int
	Rec    []uint32
	// Draws counts Choose calls with n > 1 (also in replay mode).
	Draws int
}

// Mix derives a run seed from the batch seed, a stream label and a run index.
func Mix(seed uint64, label string, run uint64) uint64 {
	h := seed*0x9E3779B97F4A7C15 + 0x632BE59BD9B4E019
	for i := 0; i < len(label); i++ {
		h = (h ^ uint64(label[i])) * 0x100000001B3
	}
	h ^= run + 0x9E3779B97F4A7C15 + (h << 6) + (h >> 2)
	// final avalanche (splitmix64 finaliser)
	h ^= h >> 30
	h *= 0xBF58476D1CE4E5B9
	h ^= h >> 27
	h *= 0x94D049BB133111EB
	h ^= h >> 31
	return h
}

// NewTape returns a recording tape seeded with seed.
func NewTape(seed uint64) *Tape { return &Tape{state: seed} }

// ReplayTape returns a tape that replays vals.
func ReplayTape(vals []uint32) *Tape {
	return &Tape{replay: true, in: vals}
}

func (t *Tape) next64() uint64 {
	t.state += 0x9E3779B97F4A7C15
	z := t.state
	z = (z ^ (z >> 30)) * 0xBF58476D1CE4E5B9
	z = (z ^ (z >> 27)) * 0x94D049BB133111EB
	return z ^ (z >> 31)
}

// Choose returns a value in [0,n).  n <= 1 returns 0 without consuming a draw.
func (t *Tape) Choose(n int) int {
	if n <= 1 {
		return 0
	}
	t.Draws++
	var v uint32
	if t.replay {
		if t.pos < len(t.in) {
			v = t.in[t.pos] % uint32(n)
		}
		t.pos++
	} else {
		v = uint32(t.next64()>>11) % uint32(n)
	}
	t.Rec = append(t.Rec, v)
	return int(v)
}

// Range returns a value in [lo,hi] (inclusive); lo is the "simplest" value.
func (t *Tape) Range(lo, hi int) int {
	if hi <= lo {
		return lo
	}
	return lo + t.Choose(hi-lo+1)
}

// Bool returns true with probability num/den; false is the simple value.
func (t *Tape) Bool(num, den int) bool {
	return t.Choose(den) >= den-num
}

// Weighted draws an index with the given integer weights.  Index 0 should be
// the simplest alternative: a draw of 0 always maps to the first alternative
// with a non-zero weight.
func (t *Tape) Weighted(w ...int) int {
	tot := 0
	for _, x := range w {
		tot += x
	}
	if tot <= 0 {
		return 0
	}
	v := t.Choose(tot)
	for i, x := range w {
		if v < x {
			return i
		}
		v -= x
	}
	return len(w) - 1
}

// Small draws a non-negative integer <= max biased towards small values
// (geometric-ish): used for sizes.
func (t *Tape) Small(max int) int {
	if max <= 0 {
		return 0
	}
	k := t.Choose(8)
	switch {
	case k < 4:
		return t.Range(0, min(max, 3))
	case k < 6:
		return t.Range(0, min(max, 12))
	case k < 7:
		return t.Range(0, min(max, 64))
	default:
		return t.Range(0, max)
	}
}

// Bytes draws n arbitrary bytes.
func (t *Tape) Bytes(n int) []byte {
	b := make([]byte, n)
	for i := range b {
		b[i] = byte(t.Choose(256))
	}
	return b
}

// Pick returns one element of xs.
func Pick[T any](t *Tape, xs []T) T {
	return xs[t.Choose(len(xs))]
}

// Fork returns an independent recording tape whose seed is drawn from t.  It is
// used where a sub-generator must not perturb the parent's later draws.  In
// replay mode the child seed is a replayed value, so replay stays exact.
func (t *Tape) Fork() *Tape {
	a := uint64(t.Choose(1 << 30))
	b := uint64(t.Choose(1 << 30))
	return NewTape(a<<30 | b)
}

// RawTape returns the first k raw PRNG outputs of a recording tape with the
// given seed.  Replaying them reproduces the recorded run exactly as long as it
// makes at most k draws (replay reduces every value modulo the requested
// range, which is what record mode does with the same raw value).  It is used
// to recover the tape of a run whose process died before it could report.
func RawTape(seed uint64, k int) []uint32 {
	t := NewTape(seed)
	out := make([]uint32, k)
	for i := range out {
		out[i] = uint32(t.next64() >> 11)
	}
	return out
}

// Replaying reports whether the tape replays a recorded list.
func (t *Tape) Replaying() bool { return t.replay }

// Remaining returns the not yet consumed part of a replayed tape.
func (t *Tape) Remaining() []uint32 {
	if !t.replay || t.pos >= len(t.in) {
		return nil
	}
	return t.in[t.pos:]
}

// Absorb splices draws made by a sub-source (the task scheduler's own norace
// tape) into this tape: they are appended to the record and, in replay mode,
// the corresponding inputs are skipped.
func (t *Tape) Absorb(rec []uint32) {
	t.Rec = append(t.Rec, rec...)
	t.Draws += len(rec)
	if t.replay {
		t.pos += len(rec)
	}
}

// State / SetState expose the PRNG state so that a sub-source with the same
// generator (simrt.SchedTape) can continue the very same stream: the raw
// stream of a seed (RawTape) then also covers the schedule draws, which is what
// lets a run whose process died be replayed exactly.
func (t *Tape) State() uint64     { return t.state }
func (t *Tape) SetState(s uint64) { t.state = s }
