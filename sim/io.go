package sim

import (
	"errors"
	"fmt"
	"hash/fnv"
	"io"
	"syscall"
)

// ErrInjected is the fault the simulated endpoints inject.
var ErrInjected = errors.New("sim: injected I/O fault")

// ChunkMode selects how a SimReader cuts the input into Read results.
type ChunkMode int

const (
	ChunkAll    ChunkMode = iota // as much as the caller's buffer takes
	ChunkFixed                   // always K bytes
	ChunkRandom                  // 1..K bytes, drawn per call
	ChunkAlt                     // alternating 1 / as much as fits
	ChunkSplit                   // two chunks: [0,K) and the rest
	ChunkList                    // explicit boundary list (Cuts), then all
)

// Schedule is a delivery schedule for a SimReader.
type Schedule struct {
	Mode        ChunkMode
	K           int
	Cuts        []int // absolute offsets (ChunkList)
	EOFWithData bool  // the final bytes arrive together with io.EOF
	Seekable    bool
}

func (s Schedule) String() string {
	m := [...]string{"all", "fixed", "random", "alt", "split", "list"}[s.Mode]
	return fmt.Sprintf("%s/k=%d/cuts=%v/eofWithData=%v/seek=%v", m, s.K, s.Cuts, s.EOFWithData, s.Seekable)
}

// FaultKind is a reader fault.
type FaultKind int

const (
	FaultNone           FaultKind = iota
	FaultPersistent               // every Read that needs byte At fails
	FaultPersistentData           // as above, but bytes before At may arrive with the error
	FaultTransient                // exactly one Read positioned at At fails with (0, err)
	FaultTruncate                 // clean EOF at At
	FaultSeek                     // Seek call number At fails
	// FaultTransientData: exactly one Read delivers the bytes up to offset At
	// together with the injected error; later reads continue normally.
	FaultTransientData
	// FaultProbeData is the fault-free twin of FaultTransientData: the same
	// Read is capped at offset At but returns a nil error.  ReadsAfterCap then
	// tells whether the consumer came back for more.
	FaultProbeData
)

func (k FaultKind) String() string {
	return [...]string{"none", "persistent", "persistent+data", "transient", "truncate", "seek", "transient+data", "probe+data"}[k]
}

// Fault describes one injected reader fault.
type Fault struct {
	Kind FaultKind
	At   int
	// Err is the error value the failing call returns (nil: ErrInjected).
	Err error
}

// FaultErrors are the error values faults are injected with: the oracle never
// looks at the identity of the error a library call returns, but a library that
// singles out particular values must not thereby lose others.  EOF-like values
// (io.EOF, io.ErrUnexpectedEOF) are deliberately absent: the unchanged library
// itself treats them as end-of-input indications in two places.
//
// An error that merely *wraps* io.EOF is not one of them: the io.Reader
// contract has end of input signalled by io.EOF itself, compared with ==, so
// "connection lost: EOF" built with %w is a failure like any other.
//
// Errors that describe themselves as temporary or as timeouts (EAGAIN from a
// non-blocking descriptor, a deadline on a connection) are failures of the
// Read call that returned them all the same: a reader that wants them retried
// retries them itself.
var FaultErrors = []error{ErrInjected, fmt.Errorf("transport: %w", ErrInjected), syscall.EIO, io.ErrClosedPipe, fmt.Errorf("connection lost: %w", io.EOF),
	syscall.EAGAIN, syscall.EINTR, timeoutError{}}

type timeoutError struct{}

func (timeoutError) Error() string   { return "simulated i/o timeout" }
func (timeoutError) Timeout() bool   { return true }
func (timeoutError) Temporary() bool { return true }

func (f Fault) err() error {
	if f.Err != nil {
		return f.Err
	}
	return ErrInjected
}

// SimReader is the simulated input endpoint.
type SimReader struct {
	data  []byte
	pos   int
	sch   Schedule
	tape  *Tape // used for ChunkRandom
	fault Fault

	alt       bool
	ended     bool
	tfired    bool
	seekCalls int

	// observations
	Reads         int
	Seeks         int
	Delivered     bool // a Read/Seek returned (0, ErrInjected)
	DeliveredData bool // a Read returned (n>0, ErrInjected)
	EOFReturned   int  // number of calls that returned io.EOF
	AfterEnd      int  // consecutive calls after EOF / persistent error was returned
	NoProgress    bool // liveness bound exceeded
	MultiChunk    bool // more than one non-empty Read happened
	Capped        bool // the Read ending at the fault offset happened (FaultTransientData / FaultProbeData)
	ReadsAfterCap int  // Read calls issued after that one
	fp            uint64
	nonEmpty      int
	limit         int
}

// NewSimReader creates a reader over data.  tape may be nil unless
// sch.Mode == ChunkRandom.
func NewSimReader(data []byte, sch Schedule, fault Fault, tape *Tape) *SimReader {
	r := &SimReader{data: data, sch: sch, fault: fault, tape: tape}
	if fault.Kind == FaultTruncate && fault.At < len(data) {
		r.data = data[:fault.At]
	}
	r.limit = 4*len(data) + 256
	r.fp = 14695981039346656037
	return r
}

func (r *SimReader) note(kind byte, a, b int) {
	h := r.fp
	for _, x := range [...]uint64{uint64(kind), uint64(a), uint64(b)} {
		h = (h ^ x) * 1099511628211
	}
	r.fp = h
}

// SetPos positions the reader at offset k before the code under test sees it
// (a caller handing over a stream positioned mid-file).
func (r *SimReader) SetPos(k int) { r.pos = k }

// Fingerprint identifies the sequence of (call, requested, delivered, outcome)
// events seen so far.
func (r *SimReader) Fingerprint() uint64 { return r.fp }

// Pos is the current offset.
func (r *SimReader) Pos() int { return r.pos }

func (r *SimReader) chunk(want int) int {
	rem := len(r.data) - r.pos
	n := want
	if n > rem {
		n = rem
	}
	if n <= 0 {
		return 0
	}
	switch r.sch.Mode {
	case ChunkFixed:
		if r.sch.K > 0 && n > r.sch.K {
			n = r.sch.K
		}
	case ChunkRandom:
		k := r.sch.K
		if k < 1 {
			k = 1
		}
		if k > n {
			k = n
		}
		n = 1 + r.tape.Choose(k)
	case ChunkAlt:
		r.alt = !r.alt
		if r.alt {
			n = 1
		}
	case ChunkSplit:
		if r.pos < r.sch.K && r.pos+n > r.sch.K {
			n = r.sch.K - r.pos
		}
	case ChunkList:
		for _, c := range r.sch.Cuts {
			if r.pos < c && r.pos+n > c {
				n = c - r.pos
				break
			}
		}
	}
	return n
}

func (r *SimReader) Read(p []byte) (int, error) {
	r.Reads++
	if r.Reads > r.limit {
		r.NoProgress = true
		return 0, io.ErrNoProgress
	}
	if len(p) == 0 {
		r.note('z', 0, 0)
		return 0, nil
	}
	n := r.chunk(len(p))
	withErr := false
	if r.Capped {
		r.ReadsAfterCap++
	}

	switch r.fault.Kind {
	case FaultPersistent, FaultPersistentData:
		at := r.fault.At
		if r.pos >= at {
			r.terminal()
			r.Delivered = true
			r.note('P', len(p), 0)
			return 0, r.fault.err()
		}
		if r.pos+n >= at {
			n = at - r.pos
			withErr = r.fault.Kind == FaultPersistentData
		}
	case FaultTransientData, FaultProbeData:
		if !r.tfired {
			at := r.fault.At
			if r.pos < at && r.pos+n >= at {
				n = at - r.pos
				r.tfired = true
				r.Capped = true
				if r.fault.Kind == FaultTransientData {
					copy(p, r.data[r.pos:r.pos+n])
					r.pos += n
					r.count(n)
					r.DeliveredData = true
					r.note('d', len(p), n)
					return n, r.fault.err()
				}
				// probe: deliver the capped chunk without EOF attached
				copy(p, r.data[r.pos:r.pos+n])
				r.pos += n
				r.count(n)
				r.note('r', len(p), n)
				return n, nil
			}
		}
	case FaultTransient:
		if !r.tfired {
			at := r.fault.At
			if r.pos == at {
				r.tfired = true
				r.Delivered = true
				r.note('T', len(p), 0)
				return 0, r.fault.err()
			}
			if r.pos < at && r.pos+n > at {
				n = at - r.pos
			}
		}
	}

	if n == 0 {
		r.EOFReturned++
		r.terminal()
		r.note('E', len(p), 0)
		return 0, io.EOF
	}
	copy(p, r.data[r.pos:r.pos+n])
	r.pos += n
	r.count(n)
	if withErr {
		r.DeliveredData = true
		r.note('D', len(p), n)
		return n, r.fault.err()
	}
	if r.pos == len(r.data) && r.sch.EOFWithData && !r.faultPendingAtEnd() {
		r.EOFReturned++
		r.ended = true
		r.note('e', len(p), n)
		return n, io.EOF
	}
	r.note('r', len(p), n)
	return n, nil
}

// faultPendingAtEnd reports whether a fault is still due at offset len(data),
// in which case EOF must not be announced early.
func (r *SimReader) faultPendingAtEnd() bool {
	switch r.fault.Kind {
	case FaultPersistent, FaultPersistentData:
		return r.fault.At <= len(r.data)
	case FaultTransient:
		return !r.tfired && r.fault.At == len(r.data)
	}
	return false
}

// terminal records a call that returns a terminal condition (EOF or the
// persistent fault) and trips the liveness bound when the consumer keeps
// calling without end.
func (r *SimReader) terminal() {
	if r.ended {
		r.AfterEnd++
		if r.AfterEnd > 16 {
			r.NoProgress = true
		}
	}
	r.ended = true
}

func (r *SimReader) count(n int) {
	if n > 0 {
		r.nonEmpty++
		if r.nonEmpty > 1 {
			r.MultiChunk = true
		}
	}
}

// Seeker wraps a SimReader so that it also implements io.Seeker.
type Seeker struct{ *SimReader }

func (s Seeker) Seek(offset int64, whence int) (int64, error) {
	r := s.SimReader
	r.Seeks++
	idx := r.seekCalls
	r.seekCalls++
	if r.fault.Kind == FaultSeek && idx == r.fault.At {
		r.Delivered = true
		r.note('S', int(offset), whence)
		return 0, r.fault.err()
	}
	var np int64
	switch whence {
	case io.SeekStart:
		np = offset
	case io.SeekCurrent:
		np = int64(r.pos) + offset
	case io.SeekEnd:
		np = int64(len(r.data)) + offset
	}
	if np < 0 {
		return 0, errors.New("sim: negative seek")
	}
	if np > int64(len(r.data)) {
		np = int64(len(r.data))
	}
	r.pos = int(np)
	r.ended = false
	r.AfterEnd = 0
	r.note('s', int(offset), whence)
	return np, nil
}

// Reader returns the io.Reader to hand to the code under test: seekable or not
// according to the schedule.
func (r *SimReader) Reader() io.Reader {
	if r.sch.Seekable {
		return Seeker{r}
	}
	return onlyReader{r}
}

type onlyReader struct{ r *SimReader }

func (o onlyReader) Read(p []byte) (int, error) { return o.r.Read(p) }

// ---------------------------------------------------------------------------

// WFaultKind is a writer fault.
type WFaultKind int

const (
	WNone     WFaultKind = iota
	WFailOnce            // call number At returns (0, err); later calls succeed
	WShort               // call number At returns (m, err) with 0<m<len; later calls succeed
	WFailFrom            // call number At and all later calls fail
	WDiskFull            // byte budget At: the crossing call is short, later calls fail
)

func (k WFaultKind) String() string {
	return [...]string{"none", "fail-once", "short-once", "fail-from", "disk-full"}[k]
}

// WFault describes one injected writer fault.
type WFault struct {
	Kind WFaultKind
	At   int
}

// SimWriter is the simulated output endpoint.
type SimWriter struct {
	fault WFault
	Buf   []byte
	Calls int
	Fired int // number of calls that returned ErrInjected
	sizes hashState
}

type hashState struct{ h uint64 }

func NewSimWriter(f WFault) *SimWriter {
	return &SimWriter{fault: f, sizes: hashState{14695981039346656037}}
}

func (w *SimWriter) Fingerprint() uint64 { return w.sizes.h }

func (w *SimWriter) Write(p []byte) (int, error) {
	idx := w.Calls
	w.Calls++
	w.sizes.h = (w.sizes.h ^ uint64(len(p))) * 1099511628211
	switch w.fault.Kind {
	case WFailOnce:
		if idx == w.fault.At {
			w.Fired++
			return 0, ErrInjected
		}
	case WShort:
		if idx == w.fault.At {
			m := len(p) / 2
			w.Buf = append(w.Buf, p[:m]...)
			w.Fired++
			return m, ErrInjected
		}
	case WFailFrom:
		if idx >= w.fault.At {
			w.Fired++
			return 0, ErrInjected
		}
	case WDiskFull:
		room := w.fault.At - len(w.Buf)
		if room < len(p) {
			if room < 0 {
				room = 0
			}
			w.Buf = append(w.Buf, p[:room]...)
			w.Fired++
			return room, ErrInjected
		}
	}
	w.Buf = append(w.Buf, p...)
	return len(p), nil
}

// HashBytes is a small helper: FNV-1a of b.
func HashBytes(b []byte) uint64 {
	h := fnv.New64a()
	h.Write(b)
	return h.Sum64()
}
