package sim

import (
	"bufio"
	"bytes"
	"encoding/json"
	"fmt"
	"os"
	"os/exec"
	"strconv"
	"strings"
	"sync"
	"sync/atomic"
	"time"
)

// Isolated batches execute their runs in child processes (the harness binary
// re-executes itself).  This is used where a violation may kill the process
// (Go stack exhaustion, the race detector's halt_on_error) or where process
// boundaries are part of the property (cold lazy initialisation, different map
// hash seeds).
//
// Protocol on the child's stdout, one record per line:
//
//	RUN <i>          before run i starts
//	OUT <json>       a run ended with a violation outcome
//	END <json>       all runs done; carries the merged statistics
type childOut struct {
	Index   int      `json:"index"`
	Tape    []uint32 `json:"tape"`
	Outcome *Outcome `json:"outcome"`
}

type childEnd struct {
	Counters map[string]int64 `json:"counters"`
	Distinct []uint64         `json:"distinct"`
	Prints   []uint64         `json:"prints"`
	Samples  []any            `json:"samples"`
	Runs     int              `json:"runs"`
}

// ChildMain is called by the harness binary when invoked as
// `<exe> <prop> child <batch> <tier> <from> <to>` or
// `<exe> <prop> childtape <batch> <tier> <index>` (tape as JSON on stdin).
func (ck *Check) ChildMain(args []string) {
	mode := args[0]
	var b *Batch
	for _, x := range ck.Batches {
		if x.Name == args[1] {
			b = x
		}
	}
	if b == nil {
		fmt.Fprintln(os.Stderr, "child: unknown batch", args[1])
		os.Exit(3)
	}
	tier := args[2]
	seed := uint64(1)
	if s := os.Getenv("VERIF_SEED_RESOLVED"); s != "" {
		seed, _ = strconv.ParseUint(s, 10, 64)
	}
	w := bufio.NewWriter(os.Stdout)
	defer w.Flush()
	if b.ChildInit != nil {
		b.ChildInit()
	}
	if mode == "childtape" {
		idx, _ := strconv.Atoi(args[3])
		var tape []uint32
		dec := json.NewDecoder(os.Stdin)
		if err := dec.Decode(&tape); err != nil {
			fmt.Fprintln(os.Stderr, "child: bad tape:", err)
			os.Exit(3)
		}
		fmt.Fprintf(w, "RUN %d\n", idx)
		w.Flush()
		t := ReplayTape(tape)
		out := safeRun(b, &RunCtx{T: t, Index: idx, Tier: tier, Explain: os.Getenv("VERIF_EXPLAIN") == "1"})
		if out != nil {
			js, _ := json.Marshal(childOut{idx, t.Rec, out})
			fmt.Fprintf(w, "OUT %s\n", js)
		}
		js, _ := json.Marshal(childEnd{Runs: 1})
		fmt.Fprintf(w, "END %s\n", js)
		return
	}
	from, _ := strconv.Atoi(args[3])
	to, _ := strconv.Atoi(args[4])
	st := NewStats()
	runs := 0
	for i := from; i < to; i++ {
		fmt.Fprintf(w, "RUN %d\n", i)
		w.Flush()
		t := NewTape(Mix(seed, ck.Prop+"/"+b.Name, uint64(i)))
		out := safeRun(b, &RunCtx{T: t, Index: i, Tier: tier, St: st})
		runs++
		if out != nil {
			js, _ := json.Marshal(childOut{i, t.Rec, out})
			fmt.Fprintf(w, "OUT %s\n", js)
			w.Flush()
			break // the parent decides whether to continue
		}
	}
	end := childEnd{Counters: st.Counters, Samples: st.Samples, Runs: runs}
	for k := range st.Distinct {
		end.Distinct = append(end.Distinct, k)
	}
	for k := range st.Prints {
		end.Prints = append(end.Prints, k)
	}
	js, _ := json.Marshal(end)
	fmt.Fprintf(w, "END %s\n", js)
}

type childResult struct {
	outs     []childOut
	end      *childEnd
	lastRun  int
	exitCode int
	stderr   string
	timedOut bool
	stalled  bool // no new run started for Batch.StallAfter
}

// progressBuf collects a child's stdout and remembers when the last protocol
// line arrived.
type progressBuf struct {
	mu   sync.Mutex
	buf  bytes.Buffer
	last time.Time
}

func (p *progressBuf) Write(b []byte) (int, error) {
	p.mu.Lock()
	defer p.mu.Unlock()
	p.last = time.Now()
	return p.buf.Write(b)
}

func (p *progressBuf) sinceProgress() time.Duration {
	p.mu.Lock()
	defer p.mu.Unlock()
	return time.Since(p.last)
}

func (p *progressBuf) bytes() []byte {
	p.mu.Lock()
	defer p.mu.Unlock()
	return append([]byte(nil), p.buf.Bytes()...)
}

func (ck *Check) spawn(b *Batch, seed uint64, args []string, stdin []byte, explain bool) childResult {
	exe, _ := os.Executable()
	if b.ChildExe != "" {
		exe = b.ChildExe
	}
	cmd := exec.Command(exe, append([]string{ck.Prop}, args...)...)
	cmd.Env = append(os.Environ(), "VERIF_SEED_RESOLVED="+strconv.FormatUint(seed, 10))
	if explain {
		cmd.Env = append(cmd.Env, "VERIF_EXPLAIN=1")
	}
	cmd.Env = append(cmd.Env, b.Env...)
	if stdin != nil {
		cmd.Stdin = bytes.NewReader(stdin)
	}
	var stderr bytes.Buffer
	stdout := &progressBuf{last: time.Now()}
	cmd.Stdout = stdout
	cmd.Stderr = &stderr
	res := childResult{lastRun: -1}
	if err := cmd.Start(); err != nil {
		res.exitCode = -1
		res.stderr = err.Error()
		return res
	}
	done := make(chan error, 1)
	go func() { done <- cmd.Wait() }()
	timeout := b.ChildTimeout
	if timeout == 0 {
		timeout = 120 * time.Second
	}
	deadline := time.After(timeout)
	tick := time.NewTicker(2 * time.Second)
	defer tick.Stop()
wait:
	for {
		select {
		case err := <-done:
			if err != nil {
				if ee, ok := err.(*exec.ExitError); ok {
					res.exitCode = ee.ExitCode()
				} else {
					res.exitCode = -1
				}
			}
			break wait
		case <-deadline:
			cmd.Process.Kill()
			<-done
			res.timedOut = true
			res.exitCode = -2
			break wait
		case <-tick.C:
			// a child that has not started a new run for StallAfter is stuck
			// inside one run
			if b.StallAfter > 0 && stdout.sinceProgress() > b.StallAfter {
				cmd.Process.Kill()
				<-done
				res.stalled = true
				res.exitCode = -3
				break wait
			}
		}
	}
	res.stderr = stderr.String()
	sc := bufio.NewScanner(bytes.NewReader(stdout.bytes()))
	sc.Buffer(make([]byte, 1<<20), 1<<28)
	for sc.Scan() {
		line := sc.Text()
		switch {
		case strings.HasPrefix(line, "RUN "):
			res.lastRun, _ = strconv.Atoi(line[4:])
		case strings.HasPrefix(line, "OUT "):
			var o childOut
			if json.Unmarshal([]byte(line[4:]), &o) == nil {
				res.outs = append(res.outs, o)
			}
		case strings.HasPrefix(line, "END "):
			var e childEnd
			if json.Unmarshal([]byte(line[4:]), &e) == nil {
				res.end = &e
			}
		}
	}
	return res
}

func tailText(s string, n int) string {
	if len(s) > n {
		return "..." + s[len(s)-n:]
	}
	return s
}

// abortOutcome turns a child that died into an outcome.
func abortOutcome(b *Batch, r childResult) *Outcome {
	if r.stalled {
		return &Outcome{Class: "hang", Key: "hang:" + b.Name, Detail: fmt.Sprintf("run %d did not finish: the child process started no new run for %v (twice, in two fresh processes)", r.lastRun, b.StallAfter)}
	}
	if r.timedOut {
		return &Outcome{Class: "child-timeout", Key: "child-timeout", Detail: fmt.Sprintf("child process exceeded its wall-clock limit during run %d", r.lastRun)}
	}
	if b.ClassifyAbort != nil {
		if o := b.ClassifyAbort(r.exitCode, r.stderr); o != nil {
			return o
		}
	}
	first := r.stderr
	if i := strings.Index(first, "\n"); i >= 0 {
		first = first[:i]
	}
	return &Outcome{Class: "process-abort", Key: "process-abort:" + first,
		Detail: fmt.Sprintf("process died (exit %d) during run %d: %s", r.exitCode, r.lastRun, first),
		Human:  map[string]any{"stderr": tailText(r.stderr, 6000)}}
}

// runTapeIsolated executes one tape in a fresh child and returns its outcome
// and recorded tape.
func (ck *Check) runTapeIsolated(b *Batch, seed uint64, tier string, idx int, tape []uint32, explain bool) (*Outcome, []uint32, bool) {
	js, _ := json.Marshal(tape)
	r := ck.spawn(b, seed, []string{"childtape", b.Name, tier, strconv.Itoa(idx)}, js, explain)
	if len(r.outs) > 0 {
		return r.outs[0].Outcome, r.outs[0].Tape, true
	}
	if r.end == nil {
		if r.timedOut && !b.TimeoutIsViolation && !r.stalled {
			return nil, tape, false
		}
		return abortOutcome(b, r), tape, true
	}
	return nil, tape, true
}

// runIsolated runs batch b in child processes.  It returns violations, the
// number of completed runs and infrastructure failures.
func (ck *Check) runIsolated(b *Batch, seed uint64, tier string, n int, known map[string]Finding, knownHit map[string]string, total *Stats) (viols []viol, done int64, infra int) {
	per := b.PerProc
	if per <= 0 {
		per = 1
	}
	workers := b.Workers
	if workers <= 0 {
		workers = 16
	}
	var next int64
	var stop int32
	var mu sync.Mutex
	var wg sync.WaitGroup
	for w := 0; w < workers; w++ {
		wg.Add(1)
		go func() {
			defer wg.Done()
			for atomic.LoadInt32(&stop) == 0 {
				from := int(atomic.AddInt64(&next, int64(per))) - per
				if from >= n {
					return
				}
				to := from + per
				if to > n {
					to = n
				}
				for from < to {
					r := ck.spawn(b, seed, []string{"child", b.Name, tier, strconv.Itoa(from), strconv.Itoa(to)}, nil, false)
					if r.timedOut && b.TimeoutIsViolation && r.lastRun >= 0 && per == 1 {
						// a time-out only counts as a violation when the run does not
						// finish within three times the limit in a second child
						// either: a loaded machine must not raise an alarm
						bb := *b
						bb.ChildTimeout = 3 * b.ChildTimeout
						if bb.ChildTimeout == 0 {
							bb.ChildTimeout = 360 * time.Second
						}
						r2 := ck.spawn(&bb, seed, []string{"child", b.Name, tier, strconv.Itoa(r.lastRun), strconv.Itoa(r.lastRun + 1)}, nil, false)
						if !r2.timedOut {
							fmt.Fprintf(os.Stderr, "run %d of batch %s exceeded its time limit once but finished on retry: slow machine, not a hang\n", r.lastRun, b.Name)
							// merge: runs before lastRun are lost from the statistics of
							// the first child; continue from the retried run's result
							from = r.lastRun
							r = r2
						}
					}
					if r.stalled && r.lastRun >= 0 {
						// confirm in a second fresh process, replaying the child's runs
						// up to the stuck one with twice the patience
						bb := *b
						bb.StallAfter = 2 * b.StallAfter
						r2 := ck.spawn(&bb, seed, []string{"child", b.Name, tier, strconv.Itoa(from), strconv.Itoa(r.lastRun + 1)}, nil, false)
						if !(r2.stalled && r2.lastRun == r.lastRun) {
							fmt.Fprintf(os.Stderr, "run %d of batch %s stalled once but not on retry: slow machine, not a hang\n", r.lastRun, b.Name)
							r = r2
							to = min(to, r.lastRun+1)
							if r2.lastRun < 0 {
								to = from
							}
						}
					}
					var out *Outcome
					var tape []uint32
					idx := -1
					resume := to
					if len(r.outs) > 0 {
						o := r.outs[0]
						out, tape, idx = o.Outcome, o.Tape, o.Index
						resume = idx + 1
					} else if r.end == nil {
						if r.lastRun < 0 || (r.timedOut && !b.TimeoutIsViolation && !r.stalled) {
							mu.Lock()
							infra++
							fmt.Fprintf(os.Stderr, "child for runs %d..%d failed before/without a verdict (exit %d, timeout=%v): %s\n", from, to, r.exitCode, r.timedOut, tailText(r.stderr, 2000))
							mu.Unlock()
							atomic.StoreInt32(&stop, 1)
							return
						}
						// died during run lastRun: re-create its tape from the seed
						idx = r.lastRun
						t := NewTape(Mix(seed, ck.Prop+"/"+b.Name, uint64(idx)))
						_ = t
						out = abortOutcome(b, r)
						tape = nil // unknown until re-run; report() regenerates it
						resume = idx + 1
					}
					mu.Lock()
					if r.end != nil {
						for k, v := range r.end.Counters {
							total.Counters[k] += v
						}
						for _, k := range r.end.Distinct {
							total.Distinct[k] = struct{}{}
						}
						for _, k := range r.end.Prints {
							total.Prints[k] = struct{}{}
						}
						for _, s := range r.end.Samples {
							if len(total.Samples) < 6 {
								total.Samples = append(total.Samples, s)
							}
						}
						done += int64(r.end.Runs)
					} else if idx >= 0 {
						done += int64(idx - from + 1)
					}
					if out != nil {
						if f, ok := known[out.Key]; ok {
							knownHit[out.Key] = f.What
						} else {
							viols = append(viols, viol{b, idx, tape, out})
							atomic.StoreInt32(&stop, 1)
						}
					}
					mu.Unlock()
					if atomic.LoadInt32(&stop) != 0 {
						return
					}
					from = resume
				}
			}
		}()
	}
	wg.Wait()
	return
}
