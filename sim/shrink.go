package sim

// Shrink minimises a tape while fails(tape) stays true: delete blocks, zero
// blocks, lower single values, to a fixed point or max attempts.  Generators
// follow "0 is simplest", so this removes tokens / glyphs / segments, turns
// chunked delivery into all-at-once except where it matters, and removes
// tasks and context switches.
func Shrink(tape []uint32, fails func([]uint32) bool, max int) []uint32 {
	return ShrinkWithProgress(tape, fails, max, nil)
}

// ShrinkWithProgress reports every accepted (still failing) tape to progress,
// so that a caller who has to abandon the search - a candidate may make the
// code under test loop for ever - keeps the best tape found so far.
func ShrinkWithProgress(tape []uint32, fails func([]uint32) bool, max int, progress func([]uint32)) []uint32 {
	cur := append([]uint32(nil), tape...)
	attempts := 0
	try := func(c []uint32) bool {
		if attempts >= max {
			return false
		}
		attempts++
		if fails(c) {
			cur = append(cur[:0:0], c...)
			if progress != nil {
				progress(append([]uint32(nil), cur...))
			}
			return true
		}
		return false
	}
	for changed := true; changed && attempts < max; {
		changed = false
		// truncate tail (draws past the end read as 0)
		for n := len(cur) / 2; n >= 1; n /= 2 {
			for len(cur) > n && try(cur[:len(cur)-n]) {
				changed = true
			}
		}
		// delete blocks
		for _, bs := range []int{16, 8, 4, 2, 1} {
			for i := 0; i+bs <= len(cur) && attempts < max; {
				c := append(append([]uint32(nil), cur[:i]...), cur[i+bs:]...)
				if try(c) {
					changed = true
				} else {
					i += bs
				}
			}
		}
		// zero blocks
		for _, bs := range []int{8, 4, 2, 1} {
			for i := 0; i+bs <= len(cur) && attempts < max; i += bs {
				allZero := true
				for _, x := range cur[i : i+bs] {
					if x != 0 {
						allZero = false
					}
				}
				if allZero {
					continue
				}
				c := append([]uint32(nil), cur...)
				for j := i; j < i+bs; j++ {
					c[j] = 0
				}
				if try(c) {
					changed = true
				}
			}
		}
		// lower single values by binary search
		for i := 0; i < len(cur) && attempts < max; i++ {
			if cur[i] == 0 {
				continue
			}
			lo, hi := uint32(0), cur[i] // invariant: hi fails
			for lo < hi && attempts < max {
				mid := lo + (hi-lo)/2
				c := append([]uint32(nil), cur...)
				c[i] = mid
				if try(c) {
					hi = mid
					changed = true
				} else {
					lo = mid + 1
				}
			}
		}
	}
	return cur
}
