package sim

import (
	"encoding/json"
	"fmt"
	"os"
	"os/exec"
	"path/filepath"
	"runtime"
	"runtime/debug"
	"sort"
	"strconv"
	"strings"
	"sync"
	"sync/atomic"
	"time"
)

// Outcome is the verdict of one simulated run.  A nil *Outcome means the
// property held.
type Outcome struct {
	// Class identifies the kind of violation; shrinking preserves it.
	Class string `json:"class"`
	// Key identifies the specific failing input / call site for known-finding
	// matching (stable under shrinking where possible).
	Key string `json:"key,omitempty"`
	// Detail is a one-line human description.
	Detail string `json:"detail"`
	// Human carries the decoded run (input, schedule, fault, trace...).
	Human map[string]any `json:"human,omitempty"`
}

// Stats accumulates coverage for a batch; one instance per worker, merged at
// the end.
type Stats struct {
	// beat counts Add/Inc/Case calls: the hang watchdog's sign of life
	beat     int64
	Counters map[string]int64
	Distinct map[uint64]struct{}
	Prints   map[uint64]struct{}
	Samples  []any
}

func NewStats() *Stats {
	return &Stats{Counters: map[string]int64{}, Distinct: map[uint64]struct{}{}, Prints: map[uint64]struct{}{}}
}

func (s *Stats) Add(name string, n int64) {
	if s == nil {
		return
	}
	atomic.AddInt64(&s.beat, 1)
	s.Counters[name] += n
}
func (s *Stats) Inc(name string) { s.Add(name, 1) }

// Case records a distinct non-trivial case by its hash.
func (s *Stats) Case(h uint64) {
	if s == nil {
		return
	}
	if len(s.Distinct) < 1_500_000 {
		s.Distinct[h] = struct{}{}
	} else {
		s.Counters["distinct_set_saturated"]++
	}
}

// Print records an interleaving / schedule fingerprint.
func (s *Stats) Print(h uint64) {
	if s == nil {
		return
	}
	if len(s.Prints) < 1_000_000 {
		s.Prints[h] = struct{}{}
	}
}

func (s *Stats) Sample(v any) {
	if s == nil {
		return
	}
	if len(s.Samples) < 3 {
		s.Samples = append(s.Samples, v)
	}
}

func (s *Stats) merge(o *Stats) {
	for k, v := range o.Counters {
		s.Counters[k] += v
	}
	for k := range o.Distinct {
		s.Distinct[k] = struct{}{}
	}
	for k := range o.Prints {
		s.Prints[k] = struct{}{}
	}
	for _, x := range o.Samples {
		if len(s.Samples) < 6 {
			s.Samples = append(s.Samples, x)
		}
	}
}

// RunCtx is what a run function receives.
type RunCtx struct {
	T     *Tape
	Index int // run index within the batch (enumerated batches use it as the case number)
	Tier  string
	St    *Stats // nil while shrinking / replaying
	// Explain asks the run to fill Outcome.Human (set for the final replay of a
	// violation; skipped in the hot loop).
	Explain bool
}

// Batch is one family of runs for a property.
type Batch struct {
	Name string
	// Runs per tier.
	Quick, Thorough int
	// Enumerated batches take their case from RunCtx.Index; the batch is
	// exhaustive when all Runs complete.
	Enumerated bool
	Run        func(c *RunCtx) *Outcome
	// Serial runs the batch on one worker (memory-heavy cases).
	Serial bool
	// MaxShrink overrides the number of shrink attempts.
	MaxShrink int

	// Isolated runs execute in child processes (see isolate.go).
	Isolated bool
	// PerProc is the number of consecutive runs per child process (default 1).
	PerProc int
	// Workers is the number of concurrent children (default 16).
	Workers int
	// Env is added to the children's environment.
	Env []string
	// ChildTimeout bounds one child process (default 120 s).
	ChildTimeout time.Duration
	// TimeoutIsViolation makes a child that exceeds ChildTimeout a violation
	// instead of infrastructure trouble.
	TimeoutIsViolation bool
	// ChildInit runs once in every child before its first run.
	ChildInit func()
	// ClassifyAbort maps a dead child (exit code, stderr) to an outcome.
	ClassifyAbort func(exit int, stderr string) *Outcome
	// StallAfter: a child that starts no new run for this long is stuck inside
	// a run (0: no stall detection).  Confirmed in a second process before it is
	// reported as a violation of class "hang".
	StallAfter time.Duration
	// ChildExe, when set, is the binary the children run (default: this
	// binary).  It must know the same check and batch.
	ChildExe string
}

// Check is the complete check of one property.
type Check struct {
	Prop     string
	Harness  string
	Level    string // MANIFEST category
	Rule     string
	Assume   []string
	RealStub map[string]any
	Batches  []*Batch
	// Probes lists counters that must be non-zero in the thorough tier.
	Probes []string
	// Extra is merged into coverage.
	Extra func(st *Stats) map[string]any
	// SimTime names the unit of simulated time for this check and the counters
	// that add up to it (there is no wall clock in this library: simulated time
	// is logical events - interpreter ticks, I/O calls, scheduler steps).
	SimTimeUnit     string
	SimTimeCounters []string
}

// ReplayFile is the on-disk form of a violation.
type ReplayFile struct {
	Property string   `json:"property"`
	Harness  string   `json:"harness"`
	Batch    string   `json:"batch"`
	Seed     uint64   `json:"verif_seed"`
	Run      int      `json:"run"`
	Tier     string   `json:"tier"`
	Tape     []uint32 `json:"tape"`
	Unshrunk []uint32 `json:"unshrunk_tape,omitempty"`
	Build    string   `json:"build"`
	Outcome  *Outcome `json:"outcome"`
	// ReplayRange, when set, says that the violation depends on state left in
	// the process by the preceding runs of the same child process: the replay
	// re-executes runs [from, to) from their seeds in one fresh child and expects
	// the violation at run to-1.
	ReplayRange []int `json:"replay_range,omitempty"`
}

// Finding is one entry of known_findings.json.
type Finding struct {
	Property string `json:"property"`
	Status   string `json:"status"` // "known" or "fixed"
	Key      string `json:"key"`
	Commit   string `json:"commit,omitempty"`
	What     string `json:"what"`
}

func VerifDir() string {
	if d := os.Getenv("VERIF_DIR"); d != "" {
		return d
	}
	return "/verif"
}

func loadFindings() []Finding {
	b, err := os.ReadFile(filepath.Join(VerifDir(), "known_findings.json"))
	if err != nil {
		return nil
	}
	var f struct {
		Findings []Finding `json:"findings"`
	}
	if json.Unmarshal(b, &f) != nil {
		return nil
	}
	return f.Findings
}

func safeRun(b *Batch, c *RunCtx) (out *Outcome) {
	defer func() {
		if r := recover(); r != nil {
			st := string(debug.Stack())
			// keep the first library frame for the class
			site := panicSite(st)
			if site == "?" {
				// no library frame on the stack: the harness itself is broken;
				// that is infrastructure trouble, never a violation
				fmt.Fprintf(os.Stderr, "harness panic (no library frame): %v\n%s\n", r, st)
				os.Exit(2)
			}
			out = &Outcome{Class: "panic", Key: "panic@" + site, Detail: fmt.Sprintf("panic: %v (at %s)", r, site),
				Human: map[string]any{"stack": st}}
		}
	}()
	return b.Run(c)
}

func panicSite(stack string) string {
	lines := strings.Split(stack, "\n")
	for i, l := range lines {
		if strings.Contains(l, "seehuhn.de/go/postscript") && i+1 < len(lines) {
			f := strings.TrimSpace(lines[i+1])
			if j := strings.LastIndex(f, "/"); j >= 0 {
				f = f[j+1:]
			}
			if j := strings.Index(f, " "); j >= 0 {
				f = f[:j]
			}
			return f
		}
	}
	return "?"
}

type viol struct {
	batch *Batch
	run   int
	tape  []uint32
	out   *Outcome
}

// Main runs the check and exits.  args: tier ("quick"|"thorough") or
// "replay <file>".
func (ck *Check) Main(args []string) {
	if len(args) >= 2 && args[0] == "replay" {
		os.Exit(ck.replay(args[1]))
	}
	if len(args) >= 4 && (args[0] == "child" || args[0] == "childtape") {
		ck.ChildMain(args)
		os.Exit(0)
	}
	if len(args) >= 3 && args[0] == "rerun" {
		// rerun <batch> <run> [tier]: any run of any batch is a pure function of
		// VERIF_SEED, so it can be repeated on its own (timed, with explanation)
		os.Exit(ck.rerun(args[1:]))
	}
	if len(args) >= 1 && args[0] == "selftest-replay" {
		os.Exit(ck.selftestReplay())
	}
	tier := "quick"
	if len(args) >= 1 {
		tier = args[0]
	}
	if t := os.Getenv("VERIF_TIER"); t != "" && len(args) == 0 {
		tier = t
	}
	if tier != "quick" && tier != "thorough" {
		fmt.Fprintln(os.Stderr, "tier must be quick or thorough")
		os.Exit(2)
	}
	seed := uint64(1)
	if s := os.Getenv("VERIF_SEED"); s != "" {
		v, err := strconv.ParseUint(s, 10, 64)
		if err != nil {
			// accept negative / odd values by hashing the text
			v = Mix(0, s, 0)
		}
		seed = v
	}
	scale := 1.0
	if s := os.Getenv("VERIF_SCALE"); s != "" {
		if v, err := strconv.ParseFloat(s, 64); err == nil && v > 0 {
			scale = v
		}
	}
	fmt.Printf("VERIF_SEED=%d property=%s harness=%s tier=%s\n", seed, ck.Prop, ck.Harness, tier)
	start := time.Now()
	findings := loadFindings()
	known := map[string]Finding{}
	for _, f := range findings {
		if f.Property == ck.Prop && f.Status == "known" {
			known[f.Key] = f
		}
	}

	total := NewStats()
	var viols []viol
	knownHit := map[string]string{}
	evals := int64(0)
	exhaustive := true
	anyEnum := false
	perBatch := map[string]any{}
	infraFail := false

	for _, b := range ck.Batches {
		n := b.Quick
		if tier == "thorough" {
			n = b.Thorough
		}
		if !b.Enumerated {
			n = int(float64(n) * scale)
			exhaustive = false
		} else {
			anyEnum = true
		}
		if n <= 0 {
			continue
		}
		if b.Isolated {
			bstart := time.Now()
			vs, done, infra := ck.runIsolated(b, seed, tier, n, known, knownHit, total)
			evals += done
			perBatch[b.Name] = map[string]any{"runs": done, "planned": n, "enumerated": b.Enumerated, "isolated_processes": true, "wall_s": round3(time.Since(bstart).Seconds())}
			if int(done) < n {
				exhaustive = false
			}
			if infra > 0 {
				infraFail = true
				break
			}
			viols = append(viols, vs...)
			if len(viols) > 0 {
				break
			}
			continue
		}
		workers := runtime.NumCPU()
		if b.Serial {
			workers = 1
		}
		if workers > n {
			workers = n
		}
		var next int64
		var stop int32
		var mu sync.Mutex
		var wg sync.WaitGroup
		var done int64
		bstart := time.Now()
		// hang watchdog: which run each worker is in, and since when
		curRun := make([]int64, workers)
		curStats := make([]*Stats, workers)
		for w := range curRun {
			curRun[w] = -1
			curStats[w] = NewStats()
		}
		wdStop := make(chan struct{})
		go ck.watchdog(b, seed, tier, curRun, curStats, wdStop)
		for w := 0; w < workers; w++ {
			wg.Add(1)
			w := w
			go func() {
				defer wg.Done()
				st := curStats[w]
				for atomic.LoadInt32(&stop) == 0 {
					i := int(atomic.AddInt64(&next, 1) - 1)
					if i >= n {
						break
					}
					atomic.AddInt64(&st.beat, 1)
					atomic.StoreInt64(&curRun[w], int64(i))
					t := NewTape(Mix(seed, ck.Prop+"/"+b.Name, uint64(i)))
					out := safeRun(b, &RunCtx{T: t, Index: i, Tier: tier, St: st})
					atomic.StoreInt64(&curRun[w], -1)
					atomic.AddInt64(&done, 1)
					if out != nil {
						mu.Lock()
						if f, ok := known[out.Key]; ok {
							knownHit[out.Key] = f.What
						} else {
							viols = append(viols, viol{b, i, append([]uint32(nil), t.Rec...), out})
							atomic.StoreInt32(&stop, 1)
						}
						mu.Unlock()
					}
				}
				mu.Lock()
				total.merge(st)
				mu.Unlock()
			}()
		}
		wg.Wait()
		close(wdStop)
		evals += done
		perBatch[b.Name] = map[string]any{"runs": done, "planned": n, "enumerated": b.Enumerated, "wall_s": round3(time.Since(bstart).Seconds())}
		if int(done) < n {
			exhaustive = false
		}
		if len(viols) > 0 {
			break
		}
	}

	code := 0
	nviol := 0
	if len(viols) > 0 {
		// report the violation with the smallest (batch order, run index)
		sort.SliceStable(viols, func(i, j int) bool { return viols[i].run < viols[j].run })
		v := viols[0]
		path := ck.report(v, seed, tier)
		fmt.Printf("VIOLATION property=%s replay=%s\n", ck.Prop, path)
		code = 1
		nviol = 1
	}
	keys := make([]string, 0, len(knownHit))
	for k := range knownHit {
		keys = append(keys, k)
	}
	sort.Strings(keys)
	for _, k := range keys {
		fmt.Printf("KNOWN-FINDING: property=%s %s [%s]\n", ck.Prop, knownHit[k], k)
	}

	wall := time.Since(start).Seconds()
	cov := map[string]any{
		"evaluations":                    evals,
		"distinct_nontrivial":            len(total.Distinct),
		"rule":                           ck.Rule,
		"samples":                        total.Samples,
		"exhaustive":                     exhaustive && anyEnum,
		"counters":                       total.Counters,
		"distinct_schedule_fingerprints": len(total.Prints),
		"batches":                        perBatch,
		"runs_per_hour":                  int64(float64(evals) / wall * 3600),
		"real_vs_stub":                   ck.RealStub,
		"known_findings_hit":             keys,
	}
	if total.Counters["distinct_set_saturated"] > 0 {
		cov["distinct_nontrivial_note"] = "lower bound: the per-worker sets of case hashes are capped at 1.5 million entries; further cases were counted in counters.distinct_set_saturated but not de-duplicated"
	}
	if ck.SimTimeUnit != "" {
		var sum int64
		for _, k := range ck.SimTimeCounters {
			sum += total.Counters[k]
		}
		cov["simulated_time"] = map[string]any{"unit": ck.SimTimeUnit, "events": sum, "events_per_hour": int64(float64(sum) / wall * 3600)}
	}
	fk := map[string]int64{}
	for k, v := range total.Counters {
		if strings.HasPrefix(k, "fired_") {
			fk[k[6:]] = v
		}
	}
	if len(fk) > 0 {
		cov["fault_kinds_fired"] = fk
	}
	if ck.Extra != nil {
		for k, v := range ck.Extra(total) {
			cov[k] = v
		}
	}
	if len(total.Samples) == 0 {
		cov["samples"] = []any{"(no sample recorded)"}
	}
	ev := map[string]any{
		"property_id": ck.Prop,
		"tier":        tier,
		"seed":        int64(seed & 0x7fffffffffffffff),
		"level":       ck.Level,
		"coverage":    cov,
		"assumptions": ck.Assume,
		"wall_s":      round3(wall),
		"violations":  nviol,
	}
	evDir := os.Getenv("VERIF_EVIDENCE_DIR") // scratch runs against mutants must not overwrite the real evidence
	if evDir == "" {
		evDir = filepath.Join(VerifDir(), "evidence")
	}
	if err := writeJSON(filepath.Join(evDir, ck.Prop+".json"), ev); err != nil {
		fmt.Fprintln(os.Stderr, "cannot write evidence:", err)
		os.Exit(2)
	}
	if infraFail && code == 0 {
		fmt.Fprintln(os.Stderr, "infrastructure failure in an isolated batch")
		code = 2
	}
	// reach probes: a blind workload must not pass silently
	if code == 0 && tier == "thorough" && scale >= 1 {
		for _, p := range ck.Probes {
			if total.Counters[p] == 0 {
				fmt.Fprintf(os.Stderr, "reach probe %q stayed at zero: workload is blind, refusing to report success\n", p)
				code = 2
			}
		}
	}
	fmt.Printf("property=%s tier=%s runs=%d distinct_nontrivial=%d wall=%.1fs exit=%d\n", ck.Prop, tier, evals, len(total.Distinct), wall, code)
	os.Exit(code)
}

func round3(x float64) float64 { return float64(int64(x*1000+0.5)) / 1000 }

func writeJSON(path string, v any) error {
	b, err := json.MarshalIndent(v, "", " ")
	if err != nil {
		return err
	}
	os.MkdirAll(filepath.Dir(path), 0o755)
	tmp := path + ".tmp"
	if err := os.WriteFile(tmp, append(b, '\n'), 0o644); err != nil {
		return err
	}
	return os.Rename(tmp, path)
}

func (ck *Check) report(v viol, seed uint64, tier string) string {
	b := v.batch
	if b.Isolated {
		return ck.reportIsolated(v, seed, tier)
	}
	fails := func(vals []uint32) bool {
		out := safeRun(b, &RunCtx{T: ReplayTape(vals), Index: v.run, Tier: tier})
		return out != nil && out.Class == v.out.Class
	}
	max := b.MaxShrink
	if max == 0 {
		max = 2000
	}
	small := v.tape
	if fails(v.tape) {
		// minimise in a goroutine under a wall-clock limit: a candidate tape may
		// make the code under test loop for ever, which cannot be interrupted; the
		// best tape found so far is then reported
		var mu sync.Mutex
		best := v.tape
		done := make(chan []uint32, 1)
		go func() {
			done <- ShrinkWithProgress(v.tape, fails, max, func(b []uint32) {
				mu.Lock()
				best = b
				mu.Unlock()
			})
		}()
		select {
		case small = <-done:
		case <-time.After(90 * time.Second):
			mu.Lock()
			small = best
			mu.Unlock()
			fmt.Fprintln(os.Stderr, "minimisation abandoned after 90 s; reporting the smallest failing tape found so far")
		}
	} else {
		fmt.Fprintln(os.Stderr, "warning: violation did not reproduce in-process from its tape; reporting unshrunk")
	}
	// canonicalise: re-run to obtain the recorded tape of the shrunk run
	t := ReplayTape(small)
	out := safeRun(b, &RunCtx{T: t, Index: v.run, Tier: tier, Explain: true})
	if out == nil || out.Class != v.out.Class {
		small = v.tape
		t = ReplayTape(small)
		out = safeRun(b, &RunCtx{T: t, Index: v.run, Tier: tier, Explain: true})
		if out == nil {
			out = v.out
		}
	}
	rf := ReplayFile{Property: ck.Prop, Harness: ck.Harness, Batch: b.Name, Seed: seed, Run: v.run, Tier: tier,
		Tape: trimZeros(t.Rec), Unshrunk: v.tape, Build: os.Getenv("VERIF_BUILD"), Outcome: out}
	if len(rf.Unshrunk) > 4096 {
		rf.Unshrunk = nil
	}
	dir := os.Getenv("VERIF_REPLAY_DIR")
	if dir == "" {
		dir = filepath.Join(VerifDir(), "replays")
	}
	path := filepath.Join(dir, fmt.Sprintf("%s-%s-%d-%d.json", ck.Prop, b.Name, seed, v.run))
	if err := writeJSON(path, rf); err != nil {
		fmt.Fprintln(os.Stderr, "cannot write replay:", err)
	}
	fmt.Printf("violation class=%s batch=%s run=%d: %s\n", out.Class, b.Name, v.run, out.Detail)
	// the minimised file must fail the same way in a fresh process
	if exe, err := os.Executable(); err == nil && os.Getenv("VERIF_NO_FRESH_REPLAY") == "" {
		cmd := exec.Command(exe, ck.Prop, "replay", path)
		cmd.Env = append(os.Environ(), "VERIF_NO_FRESH_REPLAY=1")
		done := make(chan error, 1)
		if cmd.Start() == nil {
			go func() { done <- cmd.Wait() }()
			select {
			case err := <-done:
				code := 0
				if ee, ok := err.(*exec.ExitError); ok {
					code = ee.ExitCode()
				}
				fmt.Printf("replay of the minimised tape in a fresh process: %s\n", map[bool]string{true: "reproduced", false: fmt.Sprintf("NOT reproduced (exit %d)", code)}[code == 1])
			case <-time.After(120 * time.Second):
				cmd.Process.Kill()
				fmt.Println("replay of the minimised tape in a fresh process: timed out")
			}
		}
	}
	return path
}

func trimZeros(v []uint32) []uint32 {
	n := len(v)
	for n > 0 && v[n-1] == 0 {
		n--
	}
	return v[:n]
}

func (ck *Check) replay(path string) int {
	raw, err := os.ReadFile(path)
	if err != nil {
		fmt.Fprintln(os.Stderr, err)
		return 2
	}
	var rf ReplayFile
	if err := json.Unmarshal(raw, &rf); err != nil {
		fmt.Fprintln(os.Stderr, err)
		return 2
	}
	for _, b := range ck.Batches {
		if b.Name != rf.Batch {
			continue
		}
		var out *Outcome
		if len(rf.ReplayRange) == 2 {
			r := ck.spawn(b, rf.Seed, []string{"child", b.Name, rf.Tier, strconv.Itoa(rf.ReplayRange[0]), strconv.Itoa(rf.ReplayRange[1])}, nil, true)
			if len(r.outs) > 0 && r.outs[0].Index == rf.Run {
				out = r.outs[0].Outcome
			} else if r.end == nil && r.lastRun == rf.Run {
				out = abortOutcome(b, r)
			} else if len(r.outs) > 0 {
				fmt.Printf("replay %s: an earlier run of the range (%d) failed instead: %s\n", path, r.outs[0].Index, r.outs[0].Outcome.Detail)
				out = r.outs[0].Outcome
			}
		} else if b.Isolated || (rf.Outcome != nil && rf.Outcome.Class == "hang") {
			var ok bool
			bb := *b
			if !b.Isolated {
				// a recorded hang is replayed in a child process under a time limit
				bb.ChildTimeout = 300 * time.Second
				bb.TimeoutIsViolation = true
			}
			out, _, ok = ck.runTapeIsolated(&bb, rf.Seed, rf.Tier, rf.Run, rf.Tape, true)
			if !ok {
				fmt.Fprintln(os.Stderr, "replay: child gave no verdict")
				return 2
			}
		} else {
			out = safeRun(b, &RunCtx{T: ReplayTape(rf.Tape), Index: rf.Run, Tier: rf.Tier, Explain: true})
		}
		if out == nil {
			fmt.Printf("replay %s: property held (no violation)\n", path)
			return 0
		}
		js, _ := json.MarshalIndent(out, "", " ")
		fmt.Printf("%s\n", js)
		want := ""
		if rf.Outcome != nil {
			want = rf.Outcome.Class
		}
		if want != "" && out.Class != want {
			fmt.Printf("replay %s: violation of a different class (%s, recorded %s)\n", path, out.Class, want)
		}
		fmt.Printf("VIOLATION property=%s replay=%s\n", ck.Prop, path)
		return 1
	}
	fmt.Fprintln(os.Stderr, "unknown batch", rf.Batch)
	return 2
}

func (ck *Check) reportIsolated(v viol, seed uint64, tier string) string {
	b := v.batch
	tape := v.tape
	if tape == nil {
		tape = RawTape(Mix(seed, ck.Prop+"/"+b.Name, uint64(v.run)), 1<<15)
	}
	shrinkDeadline := time.Now().Add(40 * time.Second)
	fails := func(vals []uint32) bool {
		if time.Now().After(shrinkDeadline) {
			return false // stop minimising: report what we have
		}
		out, _, ok := ck.runTapeIsolated(b, seed, tier, v.run, vals, false)
		return ok && out != nil && out.Class == v.out.Class
	}
	max := b.MaxShrink
	if max == 0 {
		max = 200
	}
	small := tape
	reproduced := fails(tape)
	shrinkDeadline = time.Now().Add(40 * time.Second)
	if reproduced {
		if v.out.Class != "child-timeout" && v.out.Class != "hang" { // every attempt on a hanging run costs a full timeout
			small = Shrink(tape, fails, max)
		}
	} else {
		fmt.Fprintln(os.Stderr, "warning: violation did not reproduce in a fresh process from its tape; reporting unshrunk")
	}
	out, rec, ok := ck.runTapeIsolated(b, seed, tier, v.run, small, true)
	if !ok || out == nil || out.Class != v.out.Class {
		out, rec = v.out, tape
	}
	var rng []int
	if !reproduced && b.PerProc > 1 {
		// the failure may need the state the earlier runs of its child process
		// left behind: replay the child's whole range up to this run
		from := v.run - v.run%b.PerProc
		r := ck.spawn(b, seed, []string{"child", b.Name, tier, strconv.Itoa(from), strconv.Itoa(v.run + 1)}, nil, false)
		hit := len(r.outs) > 0 && r.outs[0].Index == v.run && r.outs[0].Outcome != nil && r.outs[0].Outcome.Class == v.out.Class
		if !hit && r.end == nil && r.lastRun == v.run {
			if o := abortOutcome(b, r); o != nil && o.Class == v.out.Class {
				hit = true
			}
		}
		if hit {
			rng = []int{from, v.run + 1}
			reproduced = true
			fmt.Fprintf(os.Stderr, "the violation reproduces when runs %d..%d are replayed in one fresh process\n", from, v.run)
		}
	}
	if rec == nil {
		rec = small
	}
	rf := ReplayFile{Property: ck.Prop, Harness: ck.Harness, Batch: b.Name, Seed: seed, Run: v.run, Tier: tier,
		Tape: trimZeros(rec), Build: os.Getenv("VERIF_BUILD"), Outcome: out, ReplayRange: rng}
	if len(tape) <= 4096 {
		rf.Unshrunk = tape
	}
	dir := os.Getenv("VERIF_REPLAY_DIR")
	if dir == "" {
		dir = filepath.Join(VerifDir(), "replays")
	}
	path := filepath.Join(dir, fmt.Sprintf("%s-%s-%d-%d.json", ck.Prop, b.Name, seed, v.run))
	if err := writeJSON(path, rf); err != nil {
		fmt.Fprintln(os.Stderr, "cannot write replay:", err)
	}
	fmt.Printf("violation class=%s batch=%s run=%d reproduced_in_fresh_process=%v: %s\n", out.Class, b.Name, v.run, reproduced, out.Detail)
	return path
}

// watchdog detects a library call that does not return (library code looping
// for ever cannot be interrupted from inside the process).  The harness gives a
// sign of life (Stats.beat) between any two library calls; a worker that has
// shown none for two consecutive periods of hangAfter while inside a run is
// stuck in a single call.  No call into this library legitimately takes that
// long (the largest built-in budget, 3 million operations, is a fraction of a
// second), so a slow machine does not raise an alarm.
func (ck *Check) watchdog(b *Batch, seed uint64, tier string, curRun []int64, curStats []*Stats, stop chan struct{}) {
	hangAfter := 60 * time.Second
	if s := os.Getenv("VERIF_HANG_AFTER_S"); s != "" {
		if v, err := strconv.Atoi(s); err == nil && v > 0 {
			hangAfter = time.Duration(v) * time.Second
		}
	}
	lastBeat := make([]int64, len(curRun))
	stalled := make([]int, len(curRun))
	tick := time.NewTicker(hangAfter)
	defer tick.Stop()
	for {
		select {
		case <-stop:
			return
		case <-tick.C:
		}
		for w := range curRun {
			i := atomic.LoadInt64(&curRun[w])
			beat := atomic.LoadInt64(&curStats[w].beat)
			if i < 0 || beat != lastBeat[w] {
				lastBeat[w] = beat
				stalled[w] = 0
				continue
			}
			stalled[w]++
			if stalled[w] < 2 {
				fmt.Fprintf(os.Stderr, "watchdog: run %d of batch %s has shown no sign of life for %v\n", i, b.Name, hangAfter)
				continue
			}
			out := &Outcome{Class: "hang", Key: "hang:" + b.Name, Detail: fmt.Sprintf("run %d: a single library call has not returned for more than %v: it does not terminate", i, 2*hangAfter)}
			tape := RawTape(Mix(seed, ck.Prop+"/"+b.Name, uint64(i)), 1<<12)
			rf := ReplayFile{Property: ck.Prop, Harness: ck.Harness, Batch: b.Name, Seed: seed, Run: int(i), Tier: tier, Tape: tape, Build: os.Getenv("VERIF_BUILD"), Outcome: out}
			dir := os.Getenv("VERIF_REPLAY_DIR")
			if dir == "" {
				dir = filepath.Join(VerifDir(), "replays")
			}
			path := filepath.Join(dir, fmt.Sprintf("%s-%s-%d-%d.json", ck.Prop, b.Name, seed, i))
			writeJSON(path, rf)
			fmt.Printf("violation class=hang batch=%s run=%d: %s\n", b.Name, i, out.Detail)
			fmt.Printf("VIOLATION property=%s replay=%s\n", ck.Prop, path)
			os.Exit(1)
		}
	}
}

// selftestReplay checks the simulator itself: for a sample of runs of every
// batch, executing the run from its seed (record mode) and executing it again
// from the recorded tape (replay mode) must make exactly the same draws and
// reach the same verdict.  A generator that consumed the tape differently in the
// two modes would silently break replay files and shrinking.
func (ck *Check) selftestReplay() int {
	seed := uint64(1)
	if s := os.Getenv("VERIF_SEED"); s != "" {
		if v, err := strconv.ParseUint(s, 10, 64); err == nil {
			seed = v
		}
	}
	bad, total := 0, 0
	for _, b := range ck.Batches {
		if b.ChildInit != nil {
			b.ChildInit()
		}
		n := min(b.Quick, 150)
		step := max(1, b.Quick/n)
		for k := 0; k < n; k++ {
			i := k * step
			if b.Isolated {
				// isolated batches run in child processes because process state
				// matters to them (cold lazy tables ...): warm that state up so
				// that the two executions compared below start alike
				safeRun(b, &RunCtx{T: NewTape(Mix(seed, ck.Prop+"/"+b.Name, uint64(i))), Index: i, Tier: "quick", St: NewStats()})
			}
			t1 := NewTape(Mix(seed, ck.Prop+"/"+b.Name, uint64(i)))
			o1 := safeRun(b, &RunCtx{T: t1, Index: i, Tier: "quick", St: NewStats()})
			t2 := ReplayTape(t1.Rec)
			o2 := safeRun(b, &RunCtx{T: t2, Index: i, Tier: "quick", St: NewStats()})
			total++
			same := len(t1.Rec) == len(t2.Rec) && (o1 == nil) == (o2 == nil)
			if same {
				for j := range t1.Rec {
					if t1.Rec[j] != t2.Rec[j] {
						same = false
						break
					}
				}
			}
			if same && o1 != nil && o1.Class != o2.Class {
				same = false
			}
			if !same {
				bad++
				fmt.Printf("replay divergence: batch %s run %d: record made %d draws, replay %d; verdicts %v / %v\n", b.Name, i, len(t1.Rec), len(t2.Rec), o1 != nil, o2 != nil)
			}
		}
	}
	fmt.Printf("selftest-replay property=%s: %d runs executed twice (from seed, from recorded tape), %d divergent\n", ck.Prop, total, bad)
	if bad > 0 {
		return 2
	}
	return 0
}

func (ck *Check) rerun(args []string) int {
	run, err := strconv.Atoi(args[1])
	if err != nil {
		fmt.Fprintln(os.Stderr, err)
		return 2
	}
	tier := "quick"
	if len(args) > 2 {
		tier = args[2]
	}
	seed := uint64(1)
	if s := os.Getenv("VERIF_SEED"); s != "" {
		if v, err := strconv.ParseUint(s, 10, 64); err == nil {
			seed = v
		} else {
			seed = Mix(0, s, 0)
		}
	}
	for _, b := range ck.Batches {
		if b.Name != args[0] {
			continue
		}
		t := NewTape(Mix(seed, ck.Prop+"/"+b.Name, uint64(run)))
		st := NewStats()
		t0 := time.Now()
		out := safeRun(b, &RunCtx{T: t, Index: run, Tier: tier, St: st, Explain: true})
		fmt.Printf("rerun %s/%s run %d seed %d: %d draws, %.2fs\n", ck.Prop, b.Name, run, seed, len(t.Rec), time.Since(t0).Seconds())
		var names []string
		for k := range st.Counters {
			names = append(names, k)
		}
		sort.Strings(names)
		for _, k := range names {
			fmt.Printf("  %s=%d\n", k, st.Counters[k])
		}
		if out == nil {
			fmt.Println("property held (no violation)")
			return 0
		}
		js, _ := json.MarshalIndent(out, "", " ")
		fmt.Printf("%s\n", js)
		return 1
	}
	fmt.Fprintln(os.Stderr, "unknown batch", args[0])
	return 2
}
