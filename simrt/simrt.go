// Package simrt is the run-time half of the seams that tools/instrument injects
// into a scratch copy of the library: map iteration order, wall clock, task
// scheduling (yield points, mutexes, once, go statements).
//
// With no simulator attached every function behaves like the construct it
// replaced (native map order, real clock, plain Lock), so the instrumented
// copy passes the repository's own test suite.
//
// The scheduler's own state is only touched inside //go:norace functions with
// plain loads and stores.  That is deliberate: a hand-off through a channel,
// mutex or atomic would create a happens-before edge between every pair of
// task steps and blind the race detector.  With the norace hand-off the Go race
// detector sees exactly the synchronisation the library performs, while the
// interleaving is still decided by the tape.
package simrt

import (
	"cmp"
	"fmt"
	"reflect"
	"runtime"
	"slices"
	"sync"
	"time"
)

// Chooser is the choice source (the run's tape).
type Chooser interface {
	Choose(n int) int
}

// ---------------------------------------------------------------------------
// map order seam

// OrderMode selects how permutations are derived.
type OrderMode int

const (
	OrderNative  OrderMode = iota // Go's own iteration order (simulator inactive)
	OrderSorted                   // canonical sorted order
	OrderReverse                  // sorted, reversed
	OrderRotate                   // sorted, rotated by a drawn amount
	OrderRandom                   // Fisher-Yates from the chooser (all-zero draws = sorted)
	OrderSwap                     // sorted with one drawn adjacent transposition
)

var order struct {
	mode OrderMode
	src  Chooser
	// permutations applied per site (maps with >= 2 entries).  A plain array,
	// not a Go map: map operations call race-detector hooks inside the runtime
	// that //go:norace does not remove, and tasks update this from different
	// goroutines (one at a time).
	sites [maxSites]int64
	calls int64
	perms int64
}

// SetOrder attaches (or with OrderNative detaches) the map-order oracle.
//
//go:norace
func SetOrder(mode OrderMode, src Chooser) {
	order.mode = mode
	order.src = src
}

const maxSites = 1 << 14

// OrderStats returns per-site counts of non-trivial permutations applied.
//
//go:norace
func OrderStats() (sites map[int32]int64, calls, perms int64) {
	out := map[int32]int64{}
	for k, v := range order.sites {
		if v != 0 {
			out[int32(k)] = v
		}
	}
	return out, order.calls, order.perms
}

func lessAny(a, b any) bool {
	va, vb := reflect.ValueOf(a), reflect.ValueOf(b)
	switch va.Kind() {
	case reflect.String:
		return va.String() < vb.String()
	case reflect.Int, reflect.Int8, reflect.Int16, reflect.Int32, reflect.Int64:
		return va.Int() < vb.Int()
	case reflect.Uint, reflect.Uint8, reflect.Uint16, reflect.Uint32, reflect.Uint64, reflect.Uintptr:
		return va.Uint() < vb.Uint()
	case reflect.Float32, reflect.Float64:
		return va.Float() < vb.Float()
	}
	return fmt.Sprintf("%#v", a) < fmt.Sprintf("%#v", b)
}

//go:norace
func permute[T any](s []T, site int32, sortable bool, less func(a, b T) int) {
	order.calls++
	if order.mode == OrderNative || len(s) < 2 {
		return
	}
	if sortable {
		slices.SortFunc(s, less)
	}
	order.perms++
	if site >= 0 && site < maxSites {
		order.sites[site]++
	}
	n := len(s)
	switch order.mode {
	case OrderSorted:
	case OrderReverse:
		slices.Reverse(s)
	case OrderRotate:
		k := order.src.Choose(n)
		r := append(append([]T{}, s[k:]...), s[:k]...)
		copy(s, r)
	case OrderRandom:
		for i := n - 1; i >= 1; i-- {
			j := i - order.src.Choose(i+1)
			s[i], s[j] = s[j], s[i]
		}
	case OrderSwap:
		k := order.src.Choose(n - 1)
		s[k], s[k+1] = s[k+1], s[k]
	}
}

// MapKeys returns the keys of m in the order the simulator dictates.  It
// replaces `for k := range m`: the loop body looks the value up again and
// skips keys deleted meanwhile, exactly as the language allows.
func MapKeys[M ~map[K]V, K comparable, V any](m M, site int32) []K {
	keys := make([]K, 0, len(m))
	for k := range m {
		keys = append(keys, k)
	}
	permute(keys, site, true, func(a, b K) int {
		if lessAny(a, b) {
			return -1
		}
		if lessAny(b, a) {
			return 1
		}
		return 0
	})
	return keys
}

// Shuffle permutes a slice that was produced from a map (maps.Keys and
// friends): the slice is first sorted canonically, then permuted.
func Shuffle[S ~[]E, E any](s S, site int32) S {
	permute([]E(s), site, true, func(a, b E) int {
		if lessAny(a, b) {
			return -1
		}
		if lessAny(b, a) {
			return 1
		}
		return 0
	})
	return s
}

// SeqKeys / SeqValues / SeqAll replace the iterator forms of the standard
// library's maps package.
func SeqKeys[M ~map[K]V, K comparable, V any](m M, site int32) func(yield func(K) bool) {
	return func(yield func(K) bool) {
		for _, k := range MapKeys(m, site) {
			if _, ok := m[k]; !ok {
				continue
			}
			if !yield(k) {
				return
			}
		}
	}
}

func SeqValues[M ~map[K]V, K comparable, V any](m M, site int32) func(yield func(V) bool) {
	return func(yield func(V) bool) {
		for _, k := range MapKeys(m, site) {
			v, ok := m[k]
			if !ok {
				continue
			}
			if !yield(v) {
				return
			}
		}
	}
}

func SeqAll[M ~map[K]V, K comparable, V any](m M, site int32) func(yield func(K, V) bool) {
	return func(yield func(K, V) bool) {
		for _, k := range MapKeys(m, site) {
			v, ok := m[k]
			if !ok {
				continue
			}
			if !yield(k, v) {
				return
			}
		}
	}
}

var _ = cmp.Compare[int]

// ---------------------------------------------------------------------------
// clock seam

var clock struct {
	on    bool
	now   time.Time
	src   Chooser
	reads int64
	// timers set / fired at once under the simulator
	timers, fired int64
}

// SetClock attaches a simulated clock starting at start; every read advances
// it by a drawn jump (possibly backwards: clocks skew).
//
//go:norace
func SetClock(on bool, start time.Time, src Chooser) {
	clock.on, clock.now, clock.src = on, start, src
}

//go:norace
func ClockReads() int64 { return clock.reads }

//go:norace
func Now() time.Time {
	clock.reads++
	if !clock.on {
		return time.Now()
	}
	jumps := []time.Duration{time.Nanosecond, time.Millisecond, time.Second, 26 * time.Hour, -time.Hour, 400 * 24 * time.Hour}
	clock.now = clock.now.Add(jumps[clock.src.Choose(len(jumps))])
	return clock.now
}

// AfterFunc replaces time.AfterFunc.  Simulated time has no fixed relation to
// the progress of the code that set the timer: under the simulator a timer
// either fires at once - its callback becomes a task (scheduler running) or a
// goroutine that is given 50 ms to finish before the caller goes on - or has
// not fired by the time the operation is over.  Which of the two is drawn
// from the run's tape.  The returned timer is a real one (so that the
// library's variables keep their types); stopping it is harmless.
//
//go:norace
func AfterFunc(d time.Duration, f func(), site int32) *time.Timer {
	var src Chooser
	switch {
	case sched.on:
		src = sched.src
	case clock.on && clock.src != nil:
		src = clock.src
	default:
		return time.AfterFunc(d, f)
	}
	clock.timers++
	if src.Choose(2) == 0 {
		return time.AfterFunc(1<<62, f) // never, as far as this run is concerned
	}
	clock.fired++
	if sched.on {
		Go(f)
		Yield(site)
	} else {
		done := make(chan struct{})
		go func() { defer close(done); f() }()
		select {
		case <-done:
		case <-time.After(50 * time.Millisecond):
		}
	}
	return time.AfterFunc(1<<62, func() {})
}

// TimerStats reports timers set under the simulator and how many fired at once.
//
//go:norace
func TimerStats() (set, fired int64) { return clock.timers, clock.fired }

// Sleep replaces time.Sleep: simulated time passes, real time does not.
//
//go:norace
func Sleep(d time.Duration) {
	switch {
	case sched.on:
		if clock.on {
			clock.now = clock.now.Add(d)
		}
		Yield(-1)
	case clock.on:
		clock.now = clock.now.Add(d)
	default:
		time.Sleep(d)
	}
}

func Since(t time.Time) time.Duration { return Now().Sub(t) }
func Until(t time.Time) time.Duration { return t.Sub(Now()) }

// ---------------------------------------------------------------------------
// task scheduler

const maxTasks = 512

var sched struct {
	on       bool
	cur      int
	n        int
	finished [maxTasks]bool
	blocked  [maxTasks]bool
	live     int
	quantum  int
	src      Chooser
	steps    int64
	maxSteps int64
	switches int64
	contend  int64
	chanOps  int64
	parks    int64
	parked   [maxTasks]bool // the task's goroutine is inside a real blocking operation
	nparked  int
	trace    uint64
	aborted  bool
	inLib    [maxTasks]bool // task has passed a library yield point since its last switch
	overlap  int64          // switches that left another task inside library code
	lastSite [maxTasks]int32
	funcs    []func()
	spawned  int
	panics   [maxTasks]any
}

// Result summarises one scheduled run.
type Result struct {
	Steps, Switches, Contentions, Overlaps int64
	// Parks: blocking operations (channel, select, condition variable) carried
	// out parked; Timers / TimersFired: timers set by the library and how many
	// of them the simulator fired at once
	Parks, Timers, TimersFired int64
	Trace                      uint64
	Aborted                                bool // step budget exceeded or every task blocked
	Panics                                 []any
	Tasks                                  int
}

//go:norace
func pickNext(me int) int {
	// candidates: unfinished tasks; a draw of 0 keeps the current task when it
	// can still run (fewer context switches = simpler schedule)
	var cand [maxTasks]int
	k := 0
	if me >= 0 && !sched.finished[me] && !sched.parked[me] {
		cand[k] = me
		k++
	}
	for i := 0; i < sched.n; i++ {
		if i != me && !sched.finished[i] && !sched.parked[i] {
			cand[k] = i
			k++
		}
	}
	if k == 0 {
		return -1
	}
	return cand[sched.src.Choose(k)]
}

// idleTurn: nobody holds the turn - every live task is parked in a real
// blocking operation; the first one to come back takes it.
const idleTurn = -3

// settle lets goroutines that have come back from a blocking operation note
// so before a scheduling decision is made (with one P, one Gosched runs every
// runnable goroutine once).
//
//go:norace
func settle() {
	if sched.nparked > 0 {
		// once is enough for a goroutine that the last operation woke (it is
		// next in line); a few more for those woken earlier, whom the runtime's
		// periodic look at its global queue may have made wait a round
		for i := 0; i < 4; i++ {
			runtime.Gosched()
		}
	}
}

// park: the current task is about to block for real (channel operation,
// select, condition variable).  It gives the turn to another task first - a
// goroutine parked inside the runtime while holding the turn would stop the
// simulation - and gets it back in unpark, once the operation is over and the
// schedule picks it again.  The blocking operation itself stays the real one,
// with the synchronisation the race detector knows about.
//
//go:norace
func park(site int32) int {
	me := sched.cur
	sched.parks++
	sched.steps++
	sched.parked[me] = true
	sched.nparked++
	sched.inLib[me] = true
	next := pickNext(-1)
	if next < 0 {
		sched.cur = idleTurn
		return me
	}
	sched.switches++
	sched.trace = (sched.trace ^ uint64(uint32(me))<<40 ^ uint64(uint32(next))<<32 ^ uint64(uint32(site)) ^ 1<<63) * 1099511628211
	sched.cur = next
	return me
}

//go:norace
func unpark(me int) {
	sched.parked[me] = false
	sched.nparked--
	sched.chanOps++
	for sched.cur != me {
		if sched.cur == idleTurn {
			sched.cur = me
			break
		}
		runtime.Gosched()
	}
}

//go:norace
func switchTo(me, next int, site int32) {
	if next == me || next < 0 {
		return
	}
	sched.switches++
	sched.trace = (sched.trace ^ uint64(uint32(me))<<40 ^ uint64(uint32(next))<<32 ^ uint64(uint32(site))) * 1099511628211
	for i := 0; i < sched.n; i++ {
		if i != next && !sched.finished[i] && sched.inLib[i] {
			sched.overlap++
			break
		}
	}
	sched.cur = next
	for sched.cur != me {
		runtime.Gosched()
	}
}

// Yield is inserted at every function entry and loop-body entry of library
// code.
//
//go:norace
func Yield(site int32) {
	if !sched.on {
		return
	}
	me := sched.cur
	sched.inLib[me] = true
	sched.lastSite[me] = site
	sched.steps++
	if sched.steps > sched.maxSteps {
		sched.aborted = true
		// let everything run to completion without further scheduling
		// decisions: round-robin
	}
	sched.quantum--
	if sched.quantum > 0 {
		return
	}
	sched.quantum = 1 + sched.src.Choose(64)
	if sched.src.Choose(4) == 0 {
		sched.quantum = 1 + sched.src.Choose(4)
	}
	settle()
	switchTo(me, pickNext(me), site)
}

// yieldBlocked hands the turn to another task because the current one cannot
// proceed (mutex held elsewhere).
//
//go:norace
func yieldBlocked(site int32) {
	me := sched.cur
	sched.contend++
	sched.blocked[me] = true
	// any other unfinished, unblocked task; otherwise any unfinished task
	settle()
	next := -1
	k := 0
	var cand [maxTasks]int
	for i := 0; i < sched.n; i++ {
		if i != me && !sched.finished[i] && !sched.blocked[i] && !sched.parked[i] {
			cand[k] = i
			k++
		}
	}
	if k == 0 {
		for i := 0; i < sched.n; i++ {
			if i != me && !sched.finished[i] && !sched.parked[i] {
				cand[k] = i
				k++
			}
		}
	}
	if k == 0 && sched.nparked > 0 {
		// whoever holds what this task waits for is inside a blocking
		// operation: wait for one of them to come back
		sched.steps++
		if sched.steps > sched.maxSteps {
			sched.aborted = true
			panic("simrt: no progress: step budget exceeded while every other task is blocked")
		}
		sched.cur = idleTurn
		for sched.cur != me {
			if sched.cur == idleTurn && sched.nparked == 0 {
				sched.cur = me // nobody left to hand it back
				break
			}
			runtime.Gosched()
		}
		sched.blocked[me] = false
		return
	}
	if k == 0 {
		// nobody else can run: the lock holder is gone -> deadlock
		sched.aborted = true
		panic("simrt: deadlock: task blocked on a lock that no live task holds")
	}
	next = cand[sched.src.Choose(k)]
	sched.steps++
	if sched.steps > sched.maxSteps {
		sched.aborted = true
		panic("simrt: no progress: step budget exceeded while blocked on a lock")
	}
	switchTo(me, next, site)
	sched.blocked[me] = false
}

type tryLocker interface {
	TryLock() bool
}
type tryRLocker interface {
	TryRLock() bool
}

// Lock replaces x.Lock() on sync.Mutex / sync.RWMutex values: a task that
// cannot get the lock yields to the scheduler instead of parking its OS
// thread while holding the simulator's turn.
//
//go:norace
func Lock(l interface {
	tryLocker
	Lock()
}, site int32) {
	if !sched.on {
		l.Lock()
		return
	}
	Yield(site)
	for !l.TryLock() {
		yieldBlocked(site)
	}
}

//go:norace
func RLock(l interface {
	tryRLocker
	RLock()
}, site int32) {
	if !sched.on {
		l.RLock()
		return
	}
	Yield(site)
	for !l.TryRLock() {
		yieldBlocked(site)
	}
}

// onceOwner records which task is inside which Once (a small table, not a Go
// map: see the remark on order.sites).
var onceOwner [32]struct {
	o     *sync.Once
	owner int
}

//go:norace
func onceFind(o *sync.Once) int {
	for i := range onceOwner {
		if onceOwner[i].o == o {
			return i
		}
	}
	return -1
}

// OnceDo replaces once.Do(f).
//
//go:norace
func OnceDo(o *sync.Once, f func(), site int32) {
	if !sched.on {
		o.Do(f)
		return
	}
	Yield(site)
	for {
		i := onceFind(o)
		if i < 0 || onceOwner[i].owner == sched.cur {
			break
		}
		yieldBlocked(site)
	}
	slot := onceFind(nil)
	if slot >= 0 {
		onceOwner[slot].o, onceOwner[slot].owner = o, sched.cur
	}
	defer onceRelease(o)
	o.Do(f)
}

//go:norace
func onceRelease(o *sync.Once) {
	if i := onceFind(o); i >= 0 {
		onceOwner[i].o = nil
	}
}

// Go replaces `go f()`: the new goroutine becomes a simulator task.
//
//go:norace
func Go(f func()) {
	if !sched.on || sched.n >= maxTasks {
		go f()
		return
	}
	id := sched.n
	sched.n++
	sched.live++
	go taskMain(id, f)
}

//go:norace
func taskMain(id int, f func()) {
	for sched.cur != id {
		runtime.Gosched()
	}
	func() {
		defer func() {
			if r := recover(); r != nil {
				taskPanicked(id, r)
			}
		}()
		f()
	}()
	taskDone(id)
}

//go:norace
func taskPanicked(id int, r any) {
	sched.panics[id] = r
}

//go:norace
func taskDone(id int) {
	sched.finished[id] = true
	sched.inLib[id] = false
	sched.live--
	settle()
	next := pickNext(-1)
	if next >= 0 {
		sched.switches++
		sched.trace = (sched.trace ^ uint64(uint32(id))<<40 ^ uint64(uint32(next))<<32 ^ 0xffff) * 1099511628211
		sched.cur = next
	} else if sched.live > 0 {
		sched.cur = idleTurn
	} else {
		sched.cur = -1
	}
}

// Run executes tasks under a schedule drawn from src: only one task runs at a
// time and every switch happens at a yield point.  It returns when all tasks
// have finished.
//
//go:norace
func Run(src Chooser, maxSteps int64, tasks []func()) Result {
	parks0, timers0, fired0 := sched.parks, clock.timers, clock.fired
	sched.on = true
	sched.src = src
	sched.n = len(tasks)
	sched.live = len(tasks)
	sched.steps, sched.switches, sched.contend, sched.overlap = 0, 0, 0, 0
	sched.trace = 14695981039346656037
	sched.aborted = false
	sched.maxSteps = maxSteps
	for i := range sched.finished {
		sched.finished[i] = false
		sched.blocked[i] = false
		sched.inLib[i] = false
		sched.panics[i] = nil
		sched.parked[i] = false
	}
	sched.nparked = 0
	sched.quantum = 1 + src.Choose(64)
	sched.cur = -2 // nobody yet
	for i, f := range tasks {
		go taskMain(i, f)
	}
	first := src.Choose(len(tasks))
	sched.cur = first
	var idleSince time.Time
	for sched.live > 0 {
		runtime.Gosched()
		// every live task inside a blocking operation and none coming back: the
		// library has deadlocked itself (goroutines of this run are abandoned)
		if sched.cur == idleTurn {
			if idleSince.IsZero() {
				idleSince = time.Now()
			} else if time.Since(idleSince) > 20*time.Second {
				sched.aborted = true
				break
			}
		} else {
			idleSince = time.Time{}
		}
	}
	sched.on = false
	res := Result{Parks: sched.parks - parks0, Timers: clock.timers - timers0, TimersFired: clock.fired - fired0, Steps: sched.steps, Switches: sched.switches, Contentions: sched.contend, Overlaps: sched.overlap, Trace: sched.trace, Aborted: sched.aborted, Tasks: sched.n}
	for i := 0; i < sched.n; i++ {
		if sched.panics[i] != nil {
			res.Panics = append(res.Panics, sched.panics[i])
		}
	}
	return res
}

// ---------------------------------------------------------------------------

// SchedTape is the scheduler's choice source.  Its methods are norace (the
// scheduler calls them from whichever task is running) and it either replays a
// recorded list or draws from its own splitmix64 PRNG, recording every value,
// so that the harness can splice the schedule into the run's single tape.
type SchedTape struct {
	state  uint64
	replay bool
	in     []uint32
	pos    int
	Rec    []uint32
}

// NewSchedTape returns a recording tape seeded with seed, or - when in is
// non-nil - a tape replaying in (0 once exhausted).
func NewSchedTape(seed uint64, in []uint32, replay bool) *SchedTape {
	return &SchedTape{state: seed, replay: replay, in: in, Rec: make([]uint32, 0, 256)}
}

//go:norace
func (t *SchedTape) Choose(n int) int {
	if n <= 1 {
		return 0
	}
	var v uint32
	if t.replay {
		if t.pos < len(t.in) {
			v = t.in[t.pos] % uint32(n)
		}
		t.pos++
	} else {
		t.state += 0x9E3779B97F4A7C15
		z := t.state
		z = (z ^ (z >> 30)) * 0xBF58476D1CE4E5B9
		z = (z ^ (z >> 27)) * 0x94D049BB133111EB
		z ^= z >> 31
		// biased towards 0 ("keep running the current task"): schedules with
		// few context switches are the simple ones
		v = uint32(z>>11) % uint32(n)
	}
	t.Rec = append(t.Rec, v)
	return int(v)
}

// Used reports how many replayed values were consumed.
func (t *SchedTape) Used() int { return t.pos }

// State returns the PRNG state (see sim.Tape.State).
func (t *SchedTape) State() uint64 { return t.state }

// ---------------------------------------------------------------------------
// goroutines started by the library itself

// WaitGroup replaces sync.WaitGroup in the instrumented copy.  Without a
// scheduler it is a plain sync.WaitGroup.  Under the scheduler Wait must not
// park the OS thread while the task holds the simulator's turn: it polls a
// counter (read under a real mutex, so that the race detector sees the same
// Done-before-Wait edges a sync.WaitGroup provides) and yields to the other
// tasks - the goroutines the library started are tasks, too (see Go).
type WaitGroup struct {
	real sync.WaitGroup
	mu   sync.Mutex
	n    int
}

func (w *WaitGroup) Add(delta int) {
	w.mu.Lock()
	w.n += delta
	w.mu.Unlock()
	w.real.Add(delta)
}

func (w *WaitGroup) Done() { w.Add(-1) }

func (w *WaitGroup) count() int {
	w.mu.Lock()
	defer w.mu.Unlock()
	return w.n
}

func (w *WaitGroup) Wait() {
	if schedOn() {
		for w.count() > 0 {
			yieldBlocked(-1)
		}
	}
	w.real.Wait()
}

//go:norace
func schedOn() bool { return sched.on }

// ---------------------------------------------------------------------------
// channel seam.  A task that blocks inside a channel operation while it holds
// the simulator's turn would stop the simulation, so an operation that cannot
// complete at once is carried out *parked*: the task hands the turn on (a
// scheduling decision from the tape like any other), blocks in the real
// operation, and queues for the turn again when it comes back.  The operations
// on the channel stay the real ones: the race detector sees exactly the
// synchronisation the library has.

// Recv replaces `<-ch`.
func Recv[T any](ch <-chan T, site int32) T {
	v, _ := Recv2(ch, site)
	return v
}

// Recv2 replaces `v, ok := <-ch` (and drives `for v := range ch`).
func Recv2[T any](ch <-chan T, site int32) (T, bool) {
	if !schedOn() {
		v, ok := <-ch
		return v, ok
	}
	select {
	case v, ok := <-ch:
		chanOp()
		return v, ok
	default:
	}
	me := park(site)
	v, ok := <-ch
	unpark(me)
	return v, ok
}

// Send replaces `ch <- v`.
func Send[T any](ch chan<- T, v T, site int32) {
	if !schedOn() {
		ch <- v
		return
	}
	select {
	case ch <- v:
		chanOp()
		return
	default:
	}
	me := park(site)
	defer unpark(me) // also when the channel has been closed meanwhile (panic)
	ch <- v
}

// Park / Unpark bracket a statement that may block in a way the simulator does
// not model itself: a select statement without default clause, sync.Cond.Wait.
func Park(site int32) int {
	if !schedOn() {
		return -1
	}
	return park(site)
}

// CondWait replaces c.Wait() on a *sync.Cond.
func CondWait(c *sync.Cond, site int32) {
	me := Park(site)
	c.Wait()
	Unpark(me)
}

func Unpark(me int) {
	if me >= 0 {
		unpark(me)
	}
}

//go:norace
func chanOp() { sched.chanOps++ }

// ChanOps reports channel operations completed under the scheduler and how
// many of them had to park.
//
//go:norace
func ChanOps() (ops, parks int64) { return sched.chanOps, sched.parks }

// simulated machine size reported to the library while tasks are scheduled
// (the workers themselves run with GOMAXPROCS=1)
const simCPUs = 8

// GOMAXPROCS replaces runtime.GOMAXPROCS in library code: queries (n < 1)
// report the simulated machine while the scheduler is active.
func GOMAXPROCS(n int) int {
	if n < 1 && schedOn() {
		return simCPUs
	}
	return runtime.GOMAXPROCS(n)
}

// NumCPU replaces runtime.NumCPU.
func NumCPU() int {
	if schedOn() {
		return simCPUs
	}
	return runtime.NumCPU()
}
